#!/usr/bin/env python3
"""Sensitivity: break a property on purpose in a scratch copy of /repo and confirm the check fails.

  tools/sensitivity.py list
  tools/sensitivity.py run <mutant> [<prop> ...]     (default: the properties listed for the mutant)
  tools/sensitivity.py all
  tools/sensitivity.py corpus <mutant> [<prop> ...]  (only the saved regression programs are replayed)

Mutants are either `revert:<text in the subject of a fix commit>` (the pre-fix tree for that one
defect) or patch files under /verif/mutants/ or /verif/seeded/<id>/patch.diff.  The scratch copy is a
git worktree under /var/tmp, removed afterwards; results go to /verif/mutants/RESULTS.json."""
import json
import os
import shutil
import subprocess
import sys
import time

VERIF = os.path.dirname(os.path.dirname(os.path.abspath(__file__)))
sys.path.insert(0, VERIF)
from mutants.table import MUTANTS  # noqa


def sh(*cmd, **kw):
    return subprocess.run(list(cmd), capture_output=True, text=True, **kw)


def make_tree(name, spec):
    wt = "/var/tmp/vf-mut-%s-%d" % (name.replace("/", "_"), os.getpid())
    sh("git", "-C", "/repo", "worktree", "remove", "--force", wt)
    shutil.rmtree(wt, ignore_errors=True)
    r = sh("git", "-C", "/repo", "worktree", "add", "--detach", wt, "HEAD")
    if r.returncode != 0:
        raise RuntimeError(r.stderr)
    kind, arg = spec["change"].split(":", 1)
    if kind == "revert":
        log = sh("git", "-C", "/repo", "log", "--format=%H %s").stdout.splitlines()
        hs = [l.split()[0] for l in log if arg in l]
        if len(hs) != 1:
            raise RuntimeError("revert target %r matches %d commits" % (arg, len(hs)))
        r = sh("git", "-C", wt, "revert", "--no-commit", hs[0])
    else:
        path = arg if os.path.isabs(arg) else os.path.join(VERIF, arg)
        r = sh("git", "-C", wt, "apply", "--3way", path)
        if r.returncode != 0:
            r = sh("git", "-C", wt, "apply", path)
    if r.returncode != 0:
        remove_tree(wt)
        raise RuntimeError("cannot apply %s: %s" % (spec["change"], r.stderr))
    return wt


def remove_tree(wt):
    sh("git", "-C", "/repo", "worktree", "remove", "--force", wt)
    shutil.rmtree(wt, ignore_errors=True)
    sh("git", "-C", "/repo", "worktree", "prune")


def run_one(name, props=None, tier="quick", corpus_only=False):
    spec = MUTANTS[name]
    wt = make_tree(name, spec)
    scratch = "/var/tmp/vf-mut-scratch-%s-%d" % (name.replace("/", "_"), os.getpid())
    res = {}
    try:
        for p in props or spec["props"]:
            env = dict(os.environ, VERIF_REPO=wt, VERIF_SCRATCH=scratch)
            if corpus_only:
                env["VF_CORPUS_ONLY"] = "1"
            t0 = time.time()
            r = subprocess.run([os.path.join(VERIF, "check"), p, "--tier", tier], capture_output=True, text=True,
                               env=env, cwd=VERIF)
            viol = [l for l in r.stdout.splitlines() if l.startswith("VIOLATION")]
            sigs = [l.strip() for l in r.stdout.splitlines() if "signature=" in l]
            res[p] = {"exit": r.returncode, "caught": r.returncode == 1 and bool(viol),
                      "signatures": sigs[:4], "wall_s": round(time.time() - t0, 1),
                      "tail": r.stdout.strip().splitlines()[-1:] if r.stdout.strip() else [r.stderr[-300:]]}
    finally:
        remove_tree(wt)
        shutil.rmtree(scratch, ignore_errors=True)
    return res


def main():
    if len(sys.argv) < 2 or sys.argv[1] == "list":
        for n, s in sorted(MUTANTS.items()):
            print("%-40s %-14s %s" % (n, ",".join(s["props"]), s["change"]))
        return 0
    results_path = os.environ.get("VF_SENS_RESULTS") or os.path.join(VERIF, "mutants", "RESULTS.json")
    try:
        results = json.load(open(results_path))
    except (OSError, ValueError):
        results = {}
    names = sorted(MUTANTS) if sys.argv[1] == "all" else [sys.argv[2]]
    corpus_only = sys.argv[1] == "corpus"  # replay of the saved regression programs only
    if corpus_only:
        results_path = os.path.join(VERIF, "mutants", "RESULTS-corpus.json")
        results = {}
    props = sys.argv[3:] if sys.argv[1] in ("run", "corpus") and len(sys.argv) > 3 else None
    rc = 0
    for n in names:
        try:
            res = run_one(n, props, corpus_only=corpus_only)
        except RuntimeError as e:
            print("%-40s ERROR %s" % (n, e))
            rc = 1
            continue
        results.setdefault(n, {}).update(res)
        for p, r in sorted(res.items()):
            print("%-40s %s %s %5.0fs %s" % (n, p, "CAUGHT" if r["caught"] else "MISSED(exit %d)" % r["exit"],
                                            r["wall_s"], "; ".join(r["signatures"][:2])[:160]), flush=True)
            if not r["caught"] and not MUTANTS[n].get("expected_miss"):
                rc = 1
        json.dump(results, open(results_path, "w"), indent=1, sort_keys=True)
    return rc


if __name__ == "__main__":
    sys.exit(main())
