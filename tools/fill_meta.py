#!/usr/bin/env python3
"""fills seeded/<id>/meta.json "checks_run" from mutants/RESULTS.json (what each check said about the change)"""
import glob, json, os
V = os.path.dirname(os.path.dirname(os.path.abspath(__file__)))
res = json.load(open(os.path.join(V, "mutants", "RESULTS.json")))
for d in sorted(glob.glob(os.path.join(V, "seeded", "*"))):
    name = "seed-" + os.path.basename(d)
    mp = os.path.join(d, "meta.json")
    if name not in res or not os.path.exists(mp):
        continue
    m = json.load(open(mp))
    m["checks_run"] = {p: {"caught": r["caught"], "signatures": r.get("signatures", [])[:2], "wall_s": r.get("wall_s")}
                       for p, r in sorted(res[name].items())}
    json.dump(m, open(mp, "w"), indent=1)
    print(name, {p: r["caught"] for p, r in m["checks_run"].items()})
