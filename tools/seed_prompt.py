#!/usr/bin/env python3
"""prints the prompt for a seeded-change sub-agent: only the text of the property + its worktree"""
import json, sys
pid, wt = sys.argv[1], sys.argv[2]
variant = sys.argv[3] if len(sys.argv) > 3 else ""
for l in open('/verif/properties.jsonl'):
    p = json.loads(l)
    if p['id'] == pid:
        break
print(f"""You are helping to evaluate a verification effort for the C++ allocator library foonathan/memory.
You get ONE semantic property of the library and your own scratch git worktree of the library at {wt}
(a worktree of /repo; work ONLY inside {wt}; never touch /repo itself or /verif, and do not read /verif).

PROPERTY {p['id']}: {p['title']}
Statement: {p['statement']}
Quantified over: {p['quantifier']['text']}
Code the property is anchored in: {', '.join(p['anchors']['files'])}
Mechanisms meant to make it hold: {'; '.join(m['name'] + ' (' + m.get('where','') + ')' for m in p['anchors']['mechanism'])}

YOUR TASK: produce a small, realistic change to the library sources (under {wt}/include or {wt}/src) that BREAKS this
property while the library still compiles and the existing test suite still passes. The change should look like a
plausible mistake or an innocent-looking refactoring/optimisation, and it must need something SPECIFIC to manifest:
a particular multi-step sequence of operations, an unusual size/alignment/count, a particular block or address layout,
a fault at a particular point, a specific build configuration, or two cooperating edits that each look fine alone.
It must NOT be something ordinary use exposes at once (e.g. not 'every allocation fails'). {variant}

How to build and run the existing tests in your worktree (offline; takes ~30 s):
  cd {wt}
  cmake -G Ninja -S . -B _build -DCMAKE_BUILD_TYPE=RelWithDebInfo -DFETCHCONTENT_TRY_FIND_PACKAGE_MODE=ALWAYS -DFETCHCONTENT_FULLY_DISCONNECTED=ON
  cmake --build _build && _build/test/foonathan_memory_test
(42 doctest cases must pass. The default configuration is: debug fill ON, fences 0, leak check ON, pointer check ON,
double-dealloc check OFF, assertions OFF. Other configurations can be selected with -DFOONATHAN_MEMORY_DEBUG_ASSERT=ON,
-DFOONATHAN_MEMORY_DEBUG_FENCE=8, -DFOONATHAN_MEMORY_DEBUG_DOUBLE_DEALLOC_CHECK=ON etc. in a second build directory; the
existing tests only have to pass in the default one.)

DELIVERABLES, all inside {wt}/_seed/ (create the directory):
  1. patch.diff   — `git diff` of your change to the library (sources only, no tests, no build output).
  2. demo.cpp     — a small standalone program (its own main, no test framework) that uses only the public API, exits 0
                    and prints PASS on the UNCHANGED library and exits non-zero (or crashes) printing FAIL on the CHANGED
                    library. State in a comment how to compile it (g++ -std=c++17 -I{wt}/include -I{wt}/_build/src demo.cpp
                    {wt}/_build/src/libfoonathan_memory-*.a ...) and which configuration it needs.
  3. notes.md     — which property it breaks and why, what exactly is needed for it to manifest, and what you ran
                    (test suite result with the change; demo result with and without the change).
Verify everything yourself: with the change applied the 42 existing tests pass and demo fails; with the change
reverted demo passes. To revert and restore use `git diff > /tmp/<your-id>.patch; git apply -R ...; git apply ...` - do NOT use `git stash` (the stash is shared with other worktrees of the same repository). Leave the worktree with the change APPLIED (uncommitted) at the end.
Do not commit. Keep the change small (a few lines). Finish with a short summary of the change.""")
