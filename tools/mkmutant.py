#!/usr/bin/env python3
"""mkmutant.py <name> <repo-relative file> <old> <new> [<file2> <old2> <new2> ...] -> /verif/mutants/<name>.diff"""
import difflib, sys, os
name = sys.argv[1]
args = sys.argv[2:]
out = []
for i in range(0, len(args), 3):
    f, old, new = args[i:i+3]
    src = open(os.path.join('/repo', f)).read()
    if src.count(old) != 1:
        sys.exit("%s: pattern occurs %d times in %s" % (name, src.count(old), f))
    dst = src.replace(old, new)
    out += list(difflib.unified_diff(src.splitlines(True), dst.splitlines(True), 'a/' + f, 'b/' + f))
open('/verif/mutants/%s.diff' % name, 'w').write(''.join(out))
print(name, len(out), 'lines')
