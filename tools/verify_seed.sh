#!/bin/bash
# usage: verify_seed.sh <worktree> [<demo build dir>]  — confirms: tests pass with the change (default build),
# demo fails with it, passes without it (demo linked against <demo build dir>, default _build; a second
# directory is for demos that need a non-default configuration and is rebuilt in both states)
set -u
WT=$1
DB=${2:-_build}
cd $WT || exit 2
git diff --quiet -- include src && { echo "no change applied in $WT"; exit 2; }
LIB=$(ls $DB/src/libfoonathan_memory-*.a | head -1)
build_demo() { [ "$DB" != _build ] && cmake --build $DB >/dev/null 2>&1; g++ -std=c++17 -O1 -g -I$WT/include -I$WT/$DB/src -I$WT/include/foonathan/memory _seed/demo.cpp $LIB -lpthread -o _seed/demo.bin 2>&1 | tail -3; }
echo "== with change: build + tests"
cmake --build _build >/dev/null 2>&1 || { echo "BUILD FAILED with change"; exit 1; }
_build/test/foonathan_memory_test | tail -3 | head -1
build_demo
( cd _seed && timeout 60 ./demo.bin >$WT/_seed/.with.txt 2>&1 ); W=$?
echo "demo WITH change: exit=$W: $(tail -1 $WT/_seed/.with.txt | cut -c1-150)"
git diff -- include src > _seed/.verify.patch; git apply -R _seed/.verify.patch  # (git stash is shared between worktrees)
cmake --build _build >/dev/null 2>&1
build_demo
( cd _seed && timeout 60 ./demo.bin >$WT/_seed/.without.txt 2>&1 ); O=$?
echo "demo WITHOUT change: exit=$O: $(tail -1 $WT/_seed/.without.txt | cut -c1-150)"
git apply _seed/.verify.patch; rm -f _seed/.verify.patch
rm -f _seed/demo.bin
if [ $W -ne 0 ] && [ $O -eq 0 ]; then echo "SEED-OK"; else echo "SEED-BAD"; fi
