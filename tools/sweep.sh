#!/bin/bash
# usage: tools/sweep.sh <tier> <seed...>   — runs every check for the given seeds; prints one line per run
tier=$1; shift
for seed in "$@"; do
  for p in C01 C02 C03 C04 C05 C06 C07 C08 C09 C10 C11 C12 C13 C14 C15 C16 C17 C18 C19 C20; do
    out=$(VERIF_SEED=$seed ./check $p --tier $tier 2>&1); rc=$?
    echo "seed=$seed $p rc=$rc $(echo "$out" | grep -E "^C[0-9]+ (quick|thorough)" | tail -1)"
    if [ $rc -ne 0 ]; then echo "$out" | grep -A4 -E "^(VIOLATION|BUILD|HARNESS|NOTE)" | head -30; fi
  done
done
