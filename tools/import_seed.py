#!/usr/bin/env python3
"""import_seed.py <prop> <worktree> <name> : copies patch/demo/notes into /verif/seeded/<name>/ with meta.json"""
import json, os, shutil, subprocess, sys
prop, wt, name = sys.argv[1:4]
d = os.path.join('/verif/seeded', name)
os.makedirs(d, exist_ok=True)
patch = subprocess.run(['git', '-C', wt, 'diff', '--', 'include', 'src'], capture_output=True, text=True).stdout
open(os.path.join(d, 'patch.diff'), 'w').write(patch)
for f in ('demo.cpp', 'notes.md'):
    if os.path.exists(os.path.join(wt, '_seed', f)):
        shutil.copy(os.path.join(wt, '_seed', f), os.path.join(d, f))
notes = open(os.path.join(d, 'notes.md')).read() if os.path.exists(os.path.join(d, 'notes.md')) else ''
meta = {
    "property": prop,
    "origin": "independent sub-agent given only the property text and a scratch worktree",
    "base_commit": subprocess.run(['git', '-C', wt, 'rev-parse', 'HEAD'], capture_output=True, text=True).stdout.strip(),
    "files_touched": sorted(set(l[6:] for l in patch.splitlines() if l.startswith('+++ b/'))),
    "needs_to_manifest": "see notes.md",
    "confirmed_by_me": "tools/verify_seed.sh <worktree>: 42/42 existing tests pass with the change; demo.cpp exits non-zero with the change and 0 (PASS) without it",
    "checks_run": {},
}
json.dump(meta, open(os.path.join(d, 'meta.json'), 'w'), indent=1)
print(d, len(patch.splitlines()), 'patch lines')
