#!/bin/bash
# usage: seed_in.sh <Cxx> <suffix> "<props to test, comma separated>" [<demo build dir>]
# verifies the seed in /tmp/seed/<Cxx>, imports it as seeded/<Cxx>-<suffix>, registers it in mutants/table.py
# and removes the worktree. Sensitivity is run separately (tools/sensitivity.py run seed-<Cxx>-<suffix>).
set -u
P=$1; S=$2; PROPS=$3; DB=${4:-_build}
cd /verif
if [ -z "${SEED_VERIFIED:-}" ]; then   # SEED_VERIFIED=1: verify_seed.sh was already run (in parallel) and said SEED-OK
out=$(tools/verify_seed.sh /tmp/seed/$P $DB 2>&1 | tail -4); echo "$out"
echo "$out" | grep -q SEED-OK || { echo "NOT IMPORTED"; exit 1; }
fi
python3 tools/import_seed.py $P /tmp/seed/$P $P-$S || exit 1
python3 - "$P" "$S" "$PROPS" <<'PY'
import sys
p, s, props = sys.argv[1:4]
path = '/verif/mutants/table.py'
t = open(path).read()
key = '"seed-%s-%s"' % (p, s)
if key not in t:
    line = '    %s: dict(change="patch:seeded/%s-%s/patch.diff", props=[%s]),\n' % (
        key, p, s, ", ".join('"%s"' % x for x in props.split(",")))
    i = t.rindex('}')
    t = t[:i] + line + t[i:]
    open(path, 'w').write(t)
PY
git -C /repo worktree remove --force /tmp/seed/$P; git -C /repo worktree prune
