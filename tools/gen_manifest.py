#!/usr/bin/env python3
"""Regenerates /verif/MANIFEST.json from the property table (vflib/props.py) and manifest_text.py"""
import json
import os
import subprocess
import sys

sys.path.insert(0, os.path.dirname(os.path.dirname(os.path.abspath(__file__))))
from vflib.props import PROPS  # noqa
from vflib.manifest_text import TEXT, NOT_APPLICABLE  # noqa

ALL = ["C%02d" % i for i in range(1, 21)]


def hook_commits():
    out = subprocess.run(["git", "-C", "/repo", "log", "--format=%H %s"], capture_output=True, text=True).stdout
    return [l.split()[0] for l in out.splitlines() if l.split(" ", 1)[1].startswith("verif hook")]


checks = []
for pid in ALL:
    if pid not in PROPS or pid not in TEXT:
        continue
    t = TEXT[pid]
    checks.append({
        "property_id": pid,
        "quick_cmd": "./check %s --tier quick" % pid,
        "thorough_cmd": "./check %s --tier thorough" % pid,
        "evidence_file": "/verif/evidence/%s.json" % pid,
        "replay_cmd_template": "./check %s --replay {path}" % pid,
        "engine": t["engine"],
        "level_claimed": {"category": "exploration", "text": t["level"], "design_ref": t["ref"]},
        "level_note": t["note"],
        "technique": t["technique"],
    })
claimed = set(c["property_id"] for c in checks)
na = [{"property_id": p, "reason": NOT_APPLICABLE.get(p, "check not built yet in this session; not claimed")}
      for p in ALL if p not in claimed]
m = {
    "version": 1,
    "setup_cmd": "./check --setup",
    "hooks": {
        "guard": "FOONATHAN_MEMORY_VERIF",
        "enable": "vflib/build.py compiles /repo/src/*.cpp and every harness with -DFOONATHAN_MEMORY_VERIF=1",
        "baseline_off_cmd": "cmake -G Ninja -S /repo -B /repo/_build >/dev/null && cmake --build /repo/_build && "
                            "ctest --test-dir /repo/_build -j8 --timeout 900",
        "source_commits": hook_commits(),
        "add_only": True,
    },
    "engines": [
        {"name": "hist", "path": "targets/hist_run.cpp", "serves_properties":
            [p for p in ALL if p in PROPS and ("hist" in [pt["target"] for pt in PROPS[p].get("parts", [])] or PROPS[p].get("target") == "hist")],
         "kind_free_text": "program interpreter (allocator histories) driven by rapidcheck, libFuzzer and text replay"},
        {"name": "comp", "path": "targets/comp.cpp", "serves_properties": ["C08", "C09"],
         "kind_free_text": "program interpreter over adapter compositions with logging leaf allocators"},
        {"name": "fence", "path": "targets/fence.cpp", "serves_properties": ["C17"],
         "kind_free_text": "program interpreter: write sets around low-level allocator nodes"},
        {"name": "obj", "path": "targets/obj.cpp", "serves_properties": ["C11", "C20"],
         "kind_free_text": "program interpreter: joint objects and object-creating helpers with a throwing element type"},
        {"name": "thr", "path": "targets/thr.cpp", "serves_properties": ["C13", "C14"],
         "kind_free_text": "program interpreter: instrumented mutex/allocator shell; scheduled threads in forked children"},
        {"name": "cont", "path": "targets/cont.cpp", "serves_properties": ["C10"],
         "kind_free_text": "program interpreter: STL containers over two logging allocators + generated node-size TU"},
        {"name": "pure", "path": "targets/pure.cpp", "serves_properties": ["C19"],
         "kind_free_text": "exhaustive + random comparison of arithmetic helpers with reference definitions"},
    ],
    "checks": checks,
    "not_applicable": na,
    "notes": "Every check rebuilds the library from /repo's working tree (content-addressed cache under "
             "/verif/.cache). VERIF_SEED seeds every generator; VERIF_REPO may point at another tree. "
             "known_findings.json lists recorded (known) and repaired (fixed) defects.",
}
json.dump(m, open(os.path.join(os.path.dirname(__file__), "..", "MANIFEST.json"), "w"), indent=1)
print("claimed:", sorted(claimed))
