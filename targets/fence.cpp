// fence.cpp — C17 (fence part): writes into the debug fences beside nodes of the low-level
// allocators must be reported on deallocation with the first corrupted byte; in-bounds writes never.
// Writes go anywhere into the fence the allocator wrote (observed extent, see fence_run).
#include <algorithm>
#include <cstring>

#include <foonathan/memory/allocator_traits.hpp>
#include <foonathan/memory/debugging.hpp>
#include <foonathan/memory/heap_allocator.hpp>
#include <foonathan/memory/malloc_allocator.hpp>
#include <foonathan/memory/new_allocator.hpp>
#include <foonathan/memory/virtual_memory.hpp>

#include "../vf/vf.hpp"

#if defined(__has_feature)
#if __has_feature(address_sanitizer)
#include <sanitizer/asan_interface.h>
#define VF_READABLE(p) (!__asan_address_is_poisoned(p))
#endif
#endif
#ifndef VF_READABLE
#define VF_READABLE(p) true
#endif

namespace fm = foonathan::memory;
using vf::CaseInfo;
using vf::Program;
using vf::Spec;
using vf::Verdict;

namespace
{
    // guaranteed fence bytes on each side: the *configured* value (config_impl.hpp), not a constant the
    // library derives from it
    constexpr size_t F = FOONATHAN_MEMORY_DEBUG_FILL ? FOONATHAN_MEMORY_DEBUG_FENCE : 0;

    // The fence the allocator really wrote may be longer than debug_fence_size (max_alignment bytes
    // beside heap/malloc/new nodes, one page beside virtual memory nodes).  Its extent is observed,
    // not assumed: the run of fence-pattern bytes adjacent to the node, inside memory that belongs
    // to the allocation, at most `cap` bytes.  Every byte of that run is a fence byte.
    size_t fence_run(const char* from, long step, size_t cap)
    {
        size_t n = 0;
        for (const char* q = from; n < cap; q += step, ++n)
            if (!VF_READABLE(q) || static_cast<unsigned char>(*q) != 0xFD)
                break;
        return n;
    }

    struct Report
    {
        const void* memory;
        size_t      size;
        const void* ptr;
    };
    std::vector<Report>* g_reports;
    void on_overflow(const void* memory, std::size_t size, const void* ptr)
    {
        g_reports->push_back({memory, size, ptr});
    }

    enum
    {
        K_write_in,   // in-bounds write
        K_write_pre,  // write into the fence before the node
        K_write_post, // write into the fence after the node
        K_write_edges,
        K_fill_pre,  // overwrite a run of the fence before the node (possibly all of it) with one value
        K_fill_post, // the same behind the node
        K__count
    };
    const char* names[K__count] = {"write_in", "write_pre", "write_post", "write_edges", "fill_pre", "fill_post"};

    template <class A>
    Verdict run_one(const char* aname, const Program& p, CaseInfo& ci)
    {
        using traits = fm::allocator_traits<A>;
        A      alloc;
        static const size_t sizes[] = {1, 2, 3, 7, 8, 9, 15, 16, 17, 24, 31, 32, 33, 64, 100, 255, 256,
                                       1000, 4095, 4096, 4097, 10000, 20000};
        auto   P = [&](size_t i) { return i < p.params.size() ? p.params[i] : 0u; };
        size_t size = sizes[P(1) % 23];
        if (P(1) / 23 % 3 == 2)
            size = 1 + P(2) % 20000;
        size_t mxal = traits::max_alignment(alloc);
        size_t align = size_t(1) << (P(3) % 5);
        while (align > mxal)
            align /= 2;
        bool   array = P(4) % 4 == 3;
        size_t count = 1;
        if (array)
        {
            count = 1 + P(5) % 7;
            size  = 1 + size % 3000;
        }
        size_t bytes = count * size;
        ci.subject   = std::string("LL-") + aname;

        std::vector<Report> reports;
        g_reports = &reports;
        auto old  = fm::set_buffer_overflow_handler(on_overflow);

        char* node = static_cast<char*>(array ? traits::allocate_array(alloc, count, size, align) :
                                                traits::allocate_node(alloc, size, align));
        Verdict v  = Verdict::pass();
        auto    fail = [&](const char* oracle, const std::string& msg)
        {
            if (v.ok)
                v = Verdict::fail(std::string("C17|LL-") + aname + "|" + oracle, msg);
        };
        if (!node)
            fail("null", "allocate returned null");
        else if (reinterpret_cast<uintptr_t>(node) % align != 0)
            fail("alignment", "node not aligned");
        // fill pattern of fresh memory
        if (v.ok && FOONATHAN_MEMORY_DEBUG_FILL)
            for (size_t i = 0; i < bytes; ++i)
                if (static_cast<unsigned char>(node[i]) != 0xCD)
                {
                    fail("fill-new", "fresh node does not carry the new-memory pattern at offset "
                                         + std::to_string(i));
                    break;
                }
        long lowest_pre = 1, lowest_post = -1; // offsets relative to node / node+bytes
        bool touched_first = false, touched_last = false, off_edge = false, deep = false, whole_fence = false;
        size_t cap = std::is_same<A, fm::virtual_memory_allocator>::value ? fm::virtual_memory_page_size : mxal;
        size_t Fpre = 0, Fpost = 0;
        if (v.ok && F)
        {
            Fpre  = fence_run(node - 1, -1, cap);
            Fpost = fence_run(node + bytes, 1, cap);
            if (Fpre < F || Fpost < F)
                fail("fence-short", "fence of " + std::to_string(Fpre) + " / " + std::to_string(Fpost)
                                        + " bytes before / after the node, debug_fence_size is " + std::to_string(F));
        }
        if (v.ok)
            for (auto& op : p.ops)
            {
                unsigned char val = static_cast<unsigned char>(op.c);
                switch (op.kind)
                {
                case K_write_in:
                {
                    size_t off = op.a % bytes;
                    node[off]  = char(val);
                    touched_first |= off == 0;
                    touched_last |= off == bytes - 1;
                    break;
                }
                case K_write_edges:
                    node[0]         = char(val);
                    node[bytes - 1] = char(val);
                    touched_first = touched_last = true;
                    break;
                case K_write_pre:
                    if (F && val != 0xFD)
                    {
                        long off = -1 - long(op.a % (op.b % 2 ? Fpre : std::min<size_t>(Fpre, 16))); // -1 .. -Fpre
                        deep |= size_t(-off) > F;
                        node[off] = char(val);
                        if (lowest_pre > 0 || off < lowest_pre)
                            lowest_pre = off;
                        off_edge |= off != -1;
                    }
                    else
                        ++ci.noops;
                    break;
                case K_write_post:
                    if (F && val != 0xFD)
                    {
                        long off = long(op.a % (op.b % 2 ? Fpost : std::min<size_t>(Fpost, 16))); // 0 .. Fpost-1 past the end
                        deep |= size_t(off) >= F;
                        node[bytes + size_t(off)] = char(val);
                        if (lowest_post < 0 || off < lowest_post)
                            lowest_post = off;
                        off_edge |= off != 0;
                    }
                    else
                        ++ci.noops;
                    break;
                case K_fill_pre:
                    if (F && val != 0xFD && Fpre)
                    {
                        // run [node - first - len, node - first): op.b % 3 == 0 covers the whole fence
                        size_t len   = op.b % 3 == 0 ? Fpre : 1 + op.a % Fpre;
                        size_t first = op.b % 3 == 0 ? 0 : (op.a / 7) % (Fpre - len + 1);
                        std::memset(node - first - len, int(val), len);
                        long lo = -long(first + len);
                        if (lowest_pre > 0 || lo < lowest_pre)
                            lowest_pre = lo;
                        off_edge = true;
                        deep |= first + len > F;
                        whole_fence |= len == Fpre;
                    }
                    else
                        ++ci.noops;
                    break;
                case K_fill_post:
                    if (F && val != 0xFD && Fpost)
                    {
                        size_t len   = op.b % 3 == 0 ? Fpost : 1 + op.a % Fpost;
                        size_t first = op.b % 3 == 0 ? 0 : (op.a / 7) % (Fpost - len + 1);
                        std::memset(node + bytes + first, int(val), len);
                        if (lowest_post < 0 || long(first) < lowest_post)
                            lowest_post = long(first);
                        off_edge = true;
                        deep |= first + len > F;
                        whole_fence |= len == Fpost;
                    }
                    else
                        ++ci.noops;
                    break;
                default:
                    ++ci.noops;
                }
            }
        if (node)
        {
            if (array)
                traits::deallocate_array(alloc, node, count, size, align);
            else
                traits::deallocate_node(alloc, node, size, align);
        }
        fm::set_buffer_overflow_handler(old);
        if (v.ok)
        {
            size_t expect = (lowest_pre <= 0 ? 1 : 0) + (lowest_post >= 0 ? 1 : 0);
            if (reports.size() != expect)
                fail(expect ? "overflow-missed" : "overflow-spurious",
                     "expected " + std::to_string(expect) + " buffer-overflow report(s), got "
                         + std::to_string(reports.size()) + " (size " + std::to_string(bytes)
                         + ", pre " + std::to_string(lowest_pre) + ", post "
                         + std::to_string(lowest_post) + ")");
            else
            {
                size_t k = 0;
                if (lowest_pre <= 0)
                {
                    auto& r = reports[k++];
                    if (r.memory != node || r.size != bytes || r.ptr != node + lowest_pre)
                        fail("overflow-args", "pre-fence report: memory/size/first corrupted byte wrong (got offset "
                                                  + std::to_string(static_cast<const char*>(r.ptr) - node)
                                                  + ", expected " + std::to_string(lowest_pre) + ")");
                }
                if (lowest_post >= 0 && v.ok)
                {
                    auto& r = reports[k++];
                    if (r.memory != node || r.size != bytes
                        || r.ptr != node + bytes + size_t(lowest_post))
                        fail("overflow-args", "post-fence report: memory/size/first corrupted byte wrong (got offset "
                                                  + std::to_string(static_cast<const char*>(r.ptr) - node)
                                                  + ", expected " + std::to_string(long(bytes) + lowest_post) + ")");
                }
            }
        }
        ci.nontrivial = (F && off_edge && (lowest_pre <= 0 || lowest_post >= 0))
                        || (touched_first && touched_last);
        if (lowest_pre <= 0)
            ci.classes.insert("pre-fence");
        if (lowest_post >= 0)
            ci.classes.insert("post-fence");
        if (lowest_pre > 0 && lowest_post < 0)
            ci.classes.insert("in-bounds-only");
        if (array)
            ci.classes.insert("array");
        if (deep)
            ci.classes.insert("beyond-debug_fence_size");
        if (whole_fence)
            ci.classes.insert("whole-fence-one-value");
        ci.counters["reports"] += reports.size();
        return v;
    }

    struct FenceTarget : vf::Target
    {
        const char* name() const override
        {
            return "fence";
        }
        bool spec(const std::string& property, Spec& out) const override
        {
            if (property != "C17")
                return false;
            out.nparams = 6;
            out.max_ops = 24;
            out.kinds   = {{names[0], 6}, {names[1], F ? 3u : 0u}, {names[2], F ? 3u : 0u}, {names[3], 2},
                           {names[4], F ? 2u : 0u}, {names[5], F ? 2u : 0u}};
            out.rule    = "a case that corrupts a fence at an offset other than the byte adjacent to the node, "
                          "or an in-bounds write set touching both the first and the last byte of the node";
            return true;
        }
        Verdict run(const Spec&, const Program& p, CaseInfo& ci) override
        {
            unsigned which = p.params.empty() ? 0 : p.params[0] % 4;
            switch (which)
            {
            case 0:
                return run_one<fm::heap_allocator>("heap", p, ci);
            case 1:
                return run_one<fm::malloc_allocator>("malloc", p, ci);
            case 2:
                return run_one<fm::new_allocator>("new", p, ci);
            default:
                return run_one<fm::virtual_memory_allocator>("virtual", p, ci);
            }
        }
    };
} // namespace

vf::Target& vf::the_target()
{
    static FenceTarget t;
    return t;
}
