// pure.cpp — C19: size and alignment arithmetic against definitional references.
//
//   pure --exhaustive --out DIR      complete small domain + boundary classes (every run)
//   pure --rc --out DIR              random 64-bit inputs via rapidcheck (RC_PARAMS)
//   pure --replay FILE               re-evaluate saved cases: lines "fn x a"
//
// References are written with division/modulo and loops only — no bit tricks.
#include <rapidcheck.h>

#include <cstdint>
#include <cstdio>
#include <cstring>
#include <functional>
#include <map>
#include <memory>
#include <sstream>
#include <string>
#include <unordered_set>
#include <vector>

#include <foonathan/memory/detail/align.hpp>
#include <foonathan/memory/detail/free_list.hpp>
#include <foonathan/memory/detail/free_list_array.hpp>
#include <foonathan/memory/detail/ilog2.hpp>
#include <foonathan/memory/detail/memory_stack.hpp>
#include <foonathan/memory/detail/small_free_list.hpp>

#include "../vf/vf.hpp"

namespace fm = foonathan::memory;
namespace d  = foonathan::memory::detail;
using u64    = std::uint64_t;

namespace
{
    constexpr u64 MAXV = ~u64(0);

    //=== references ===//
    bool ref_is_pow2(u64 a)
    {
        if (a == 0)
            return false;
        while (a % 2 == 0)
            a /= 2;
        return a == 1;
    }
    // least multiple of a that is >= size; ok=false if not representable
    u64 ref_round_up(u64 size, u64 a, bool& ok)
    {
        u64 rem = size % a;
        if (rem == 0)
        {
            ok = true;
            return size;
        }
        u64 add = a - rem;
        ok      = size <= MAXV - add;
        return size + add;
    }
    u64 ref_align_offset(u64 addr, u64 a)
    {
        u64 rem = addr % a;
        return rem == 0 ? 0 : a - rem;
    }
    u64 ref_alignment_for(u64 size)
    {
        u64 a = 1;
        while (a < alignof(std::max_align_t) && size % (a * 2) == 0)
            a *= 2;
        return a;
    }
    u64 ref_ilog2(u64 x) // floor
    {
        u64 r = 0;
        while (x > 1)
        {
            x /= 2;
            ++r;
        }
        return r;
    }
    u64 ref_ilog2_ceil(u64 x)
    {
        u64 f = ref_ilog2(x);
        // is x an exact power of two?
        return ref_is_pow2(x) ? f : f + 1;
    }

    //=== bookkeeping ===//
    struct Counters
    {
        u64                         evaluations = 0, nontrivial = 0, excluded = 0;
        std::map<std::string, u64>  per_fn, excluded_by;
        std::vector<std::string>    samples;
        std::vector<std::string>    failures;
        std::unordered_set<u64>     distinct; // hashes of distinct non-trivial (fn, x, a) inputs
    } C;

    bool nontrivial_input(u64 x, u64 a)
    {
        return !ref_is_pow2(x) && x != 0 && a > 1;
    }

    std::string case_text(const char* fn, u64 x, u64 a)
    {
        std::ostringstream o;
        o << fn << ' ' << x << ' ' << a;
        return o.str();
    }

    void report(const char* fn, u64 x, u64 a, u64 expected, u64 got)
    {
        std::ostringstream o;
        o << fn << ' ' << x << ' ' << a << " # expected " << expected << " got " << got;
        if (C.failures.size() < 20)
            C.failures.push_back(o.str());
    }

    // evaluates one (fn, x, a) case; returns false on mismatch
    bool eval(const std::string& fn, u64 x, u64 a)
    {
        auto count = [&](bool nt)
        {
            ++C.evaluations;
            ++C.per_fn[fn];
            if (nt)
            {
                ++C.nontrivial;
                u64 h = std::hash<std::string>()(fn) * 1000003u;
                h     = (h ^ x) * 0x9E3779B97F4A7C15ull;
                h     = (h ^ a) * 0xC2B2AE3D27D4EB4Full;
                C.distinct.insert(h ^ (h >> 29));
                if (C.samples.size() < 8 && (C.nontrivial % 7919) == 1)
                    C.samples.push_back(case_text(fn.c_str(), x, a));
            }
        };
        auto exclude = [&](const char* why)
        {
            ++C.excluded;
            ++C.excluded_by[why];
            return true;
        };
        if (fn == "is_valid_alignment")
        {
            count(!ref_is_pow2(x) && x > 2);
            bool got = d::is_valid_alignment(x), exp = ref_is_pow2(x);
            if (got != exp)
            {
                report("is_valid_alignment", x, a, exp, got);
                return false;
            }
            return true;
        }
        if (fn == "is_power_of_two")
        {
            if (x == 0)
                return exclude("is_power_of_two(0) documented undefined");
            count(!ref_is_pow2(x));
            bool got = d::is_power_of_two(x), exp = ref_is_pow2(x);
            if (got != exp)
            {
                report("is_power_of_two", x, a, exp, got);
                return false;
            }
            return true;
        }
        if (fn == "round_up")
        {
            bool ok;
            u64  exp = ref_round_up(x, a, ok);
            if (!ok)
                return exclude("round_up result not representable");
            count(nontrivial_input(x, a));
            u64 got = d::round_up_to_multiple_of_alignment(x, a);
            if (got != exp)
            {
                report("round_up", x, a, exp, got);
                return false;
            }
            return true;
        }
        if (fn == "align_offset")
        {
            count(nontrivial_input(x, a));
            u64 exp = ref_align_offset(x, a);
            u64 got = d::align_offset(std::uintptr_t(x), a);
            u64 got2 = d::align_offset(reinterpret_cast<void*>(std::uintptr_t(x)), a);
            if (got != exp || got2 != exp)
            {
                report("align_offset", x, a, exp, got != exp ? got : got2);
                return false;
            }
            return true;
        }
        if (fn == "is_aligned")
        {
            count(nontrivial_input(x, a));
            bool exp = x % a == 0;
            bool got = d::is_aligned(reinterpret_cast<void*>(std::uintptr_t(x)), a);
            if (got != exp)
            {
                report("is_aligned", x, a, exp, got);
                return false;
            }
            return true;
        }
        if (fn == "alignment_for")
        {
            if (x == 0)
                return exclude("alignment_for(0): 0 is not a valid node size");
            count(!ref_is_pow2(x));
            u64 exp = ref_alignment_for(x), got = d::alignment_for(x);
            if (got != exp)
            {
                report("alignment_for", x, a, exp, got);
                return false;
            }
            return true;
        }
        if (fn == "ilog2")
        {
            if (x == 0)
                return exclude("ilog2(0) documented undefined");
            count(!ref_is_pow2(x));
            u64 exp = ref_ilog2(x), got = d::ilog2(x);
            if (got != exp)
            {
                report("ilog2", x, a, exp, got);
                return false;
            }
            return true;
        }
        if (fn == "ilog2_ceil")
        {
            if (x == 0)
                return exclude("ilog2(0) documented undefined");
            count(!ref_is_pow2(x));
            u64 exp = ref_ilog2_ceil(x), got = d::ilog2_ceil(x);
            if (got != exp)
            {
                report("ilog2_ceil", x, a, exp, got);
                return false;
            }
            return true;
        }
        if (fn == "log2_policy")
        {
            // bucket for size x: node size >= x and < 2x; and size_from_index inverts index_from_size
            if (x == 0)
                return exclude("size 0 is not a valid node size");
            if (x > (u64(1) << 63))
                return exclude("bucket size not representable");
            count(!ref_is_pow2(x));
            auto i  = d::log2_access_policy::index_from_size(x);
            u64  ns = d::log2_access_policy::size_from_index(i);
            if (i != ref_ilog2_ceil(x))
            {
                report("log2_policy.index", x, a, ref_ilog2_ceil(x), i);
                return false;
            }
            if (ns < x || (x > 1 && ns / 2 >= x))
            {
                report("log2_policy.size", x, a, x, ns);
                return false;
            }
            return true;
        }
        if (fn == "identity_policy")
        {
            count(!ref_is_pow2(x));
            auto i = d::identity_access_policy::index_from_size(x);
            if (i != x || d::identity_access_policy::size_from_index(i) != x)
            {
                report("identity_policy", x, a, x, i);
                return false;
            }
            return true;
        }
        return true;
    }

    //=== bucket selection through free_list_array ===//
    template <class List, class Policy>
    bool check_array(const char* name0, std::size_t max_node, bool is_log, int moved = 0)
    {
        std::size_t bytes = (4 * max_node + 210) * sizeof(List) + 4096;
        std::unique_ptr<char[]> mem(new char[bytes]);
        d::fixed_memory_stack   stack(mem.get());
        using array_t = d::free_list_array<List, Policy>;
        array_t arr0(stack, mem.get() + bytes, max_node);
        // moved != 0: the array under test was move-assigned onto one built for another maximum (more /
        // fewer buckets) and then move-constructed: it must answer like the original
        array_t other(stack, mem.get() + bytes, moved == 1 ? 2 * max_node : (moved == 2 ? (max_node / 2 + 1 < 16 ? std::size_t(16) : max_node / 2 + 1) : max_node));
        if (moved)
            other = std::move(arr0);
        array_t     arr(std::move(moved ? other : arr0));
        std::string name_s = std::string(name0) + (moved == 1 ? ".moved-onto-larger" : moved == 2 ? ".moved-onto-smaller" : "");
        const char* name   = name_s.c_str();
        bool ok = true;
        if (moved && !is_log && arr.max_node_size() != max_node)
        {
            report((name_s + ".max_node_size").c_str(), max_node, 0, max_node, arr.max_node_size());
            ok = false;
        }
        if (arr.max_node_size() < max_node)
        {
            report((std::string(name) + ".max_node_size").c_str(), max_node, 0, max_node,
                   arr.max_node_size());
            ok = false;
        }
        // every size the array says it supports (its reported maximum can exceed the constructor
        // argument: log2 buckets round up)
        for (std::size_t s = 1; s <= arr.max_node_size() && s <= 4 * max_node; ++s)
        {
            ++C.evaluations;
            ++C.per_fn[name];
            if (!ref_is_pow2(s))
            {
                ++C.nontrivial;
                u64 h = std::hash<std::string>()(name) * 1000003u;
                h     = (h ^ s) * 0x9E3779B97F4A7C15ull;
                h     = (h ^ max_node) * 0xC2B2AE3D27D4EB4Full;
                C.distinct.insert(h ^ (h >> 29));
            }
            std::size_t ns  = arr.get(s).node_size();
            std::size_t min = List::min_element_size;
            bool        bad = ns < s;
            if (is_log && s >= min && s > 1 && ns / 2 >= s)
                bad = true;
            if (!is_log && s >= min && ns != s)
                bad = true; // identity buckets: exactly the size
            if (s < min && ns < min)
                bad = true;
            if (bad)
            {
                report(name, s, max_node, s, ns);
                ok = false;
            }
        }
        return ok;
    }

    bool check_all_arrays(std::size_t max_node)
    {
        bool ok = true;
        for (int moved : {1, 2})
        {
            ok &= check_array<d::free_memory_list, d::identity_access_policy>("array.unordered.id", max_node, false, moved);
            ok &= check_array<d::small_free_memory_list, d::identity_access_policy>("array.small.id", max_node, false, moved);
            ok &= check_array<d::ordered_free_memory_list, d::log2_access_policy>("array.ordered.log2", max_node, true, moved);
            ok &= check_array<d::small_free_memory_list, d::log2_access_policy>("array.small.log2", max_node, true, moved);
        }
        ok &= check_array<d::free_memory_list, d::identity_access_policy>("array.unordered.id", max_node, false);
        ok &= check_array<d::ordered_free_memory_list, d::identity_access_policy>("array.ordered.id", max_node, false);
        ok &= check_array<d::small_free_memory_list, d::identity_access_policy>("array.small.id", max_node, false);
        ok &= check_array<d::free_memory_list, d::log2_access_policy>("array.unordered.log2", max_node, true);
        ok &= check_array<d::ordered_free_memory_list, d::log2_access_policy>("array.ordered.log2", max_node, true);
        ok &= check_array<d::small_free_memory_list, d::log2_access_policy>("array.small.log2", max_node, true);
        return ok;
    }

    const char* fns_xa[] = {"round_up", "align_offset", "is_aligned"};
    const char* fns_x[]  = {"is_valid_alignment", "is_power_of_two", "alignment_for", "ilog2",
                            "ilog2_ceil", "log2_policy", "identity_policy"};

    bool run_exhaustive()
    {
        bool ok = true;
        // (i) complete small domain
        for (u64 x = 0; x <= 4096; ++x)
        {
            for (u64 a = 1; a <= 4096; a *= 2)
                for (auto fn : fns_xa)
                    ok &= eval(fn, x, a);
            for (auto fn : fns_x)
                ok &= eval(fn, x, 1);
        }
        // (ii) boundary classes around every power of two, all 64 alignments
        for (unsigned k = 0; k < 64; ++k)
        {
            u64 p = u64(1) << k;
            u64 xs[] = {p - 1, p, p + 1, MAXV - p, MAXV - p + 1};
            for (u64 x : xs)
            {
                for (unsigned j = 0; j < 64; ++j)
                    for (auto fn : fns_xa)
                        ok &= eval(fn, x, u64(1) << j);
                for (auto fn : fns_x)
                    ok &= eval(fn, x, 1);
            }
        }
        ok &= eval("ilog2", MAXV, 1) & eval("ilog2_ceil", MAXV, 1);
        // (iii) bucket selection for every size up to max_node_size, several maxima
        for (std::size_t mx : {8u, 9u, 64u, 100u, 255u, 256u, 1000u, 4096u})
            ok &= check_all_arrays(mx);
        return ok;
    }

    void write_stats(const std::string& out, const char* tag, bool exhaustive)
    {
        std::ostringstream o;
        o << "{\"tag\":\"" << tag << "\",\"evaluations\":" << C.evaluations
          << ",\"nontrivial\":" << C.nontrivial << ",\"distinct_nontrivial\":" << C.distinct.size()
          << ",\"excluded\":" << C.excluded
          << ",\"exhaustive\":" << (exhaustive ? "true" : "false") << ",\"per_fn\":{";
        bool first = true;
        for (auto& kv : C.per_fn)
        {
            o << (first ? "" : ",") << "\"" << kv.first << "\":" << kv.second;
            first = false;
        }
        o << "},\"excluded_by\":{";
        first = true;
        for (auto& kv : C.excluded_by)
        {
            o << (first ? "" : ",") << "\"" << vf::json_escape(kv.first) << "\":" << kv.second;
            first = false;
        }
        o << "},\"samples\":[";
        for (size_t i = 0; i < C.samples.size(); ++i)
            o << (i ? "," : "") << "\"" << vf::json_escape(C.samples[i]) << "\"";
        o << "],\"failures\":[";
        for (size_t i = 0; i < C.failures.size(); ++i)
            o << (i ? "," : "") << "\"" << vf::json_escape(C.failures[i]) << "\"";
        o << "]}";
        vf::write_file(out + "/pure-" + tag + ".json", o.str());
    }
} // namespace

int main(int argc, char** argv)
{
    std::string out = ".", replay, shard = "0";
    bool        ex = false, rcm = false;
    for (int i = 1; i < argc; ++i)
    {
        std::string a = argv[i];
        if (a == "--out" && i + 1 < argc)
            out = argv[++i];
        else if (a == "--replay" && i + 1 < argc)
            replay = argv[++i];
        else if (a == "--shard" && i + 1 < argc)
            shard = argv[++i];
        else if (a == "--exhaustive")
            ex = true;
        else if (a == "--rc")
            rcm = true;
    }
    if (!replay.empty())
    {
        std::string text;
        if (!vf::read_file(replay, text))
            return 3;
        std::istringstream in(text);
        std::string        line;
        bool               ok = true;
        while (std::getline(in, line))
        {
            if (line.empty() || line[0] == '#')
                continue;
            std::istringstream ls(line);
            std::string        fn;
            u64                x = 0, a = 1;
            ls >> fn >> x >> a;
            if (fn.rfind("array.", 0) == 0)
                ok &= check_all_arrays(a ? a : 64);
            else
                ok &= eval(fn.substr(0, fn.find('.')), x, a ? a : 1);
        }
        for (auto& f : C.failures)
            std::printf("FAIL %s\n", f.c_str());
        std::printf(ok ? "PASS\n" : "FAIL signature=C19|pure|mismatch\n");
        return ok ? 0 : 1;
    }
    if (ex)
    {
        bool ok = run_exhaustive();
        write_stats(out, "exhaustive", true);
        return ok ? 0 : 1;
    }
    if (rcm)
    {
        auto val = rc::gen::resize(
            100, rc::gen::weightedOneOf<u64>(
                     {{3, rc::gen::arbitrary<u64>()},
                      {2, rc::gen::map(rc::gen::arbitrary<u64>(), [](u64 v) { return v >> 32; })},
                      {2, rc::gen::map(rc::gen::tuple(rc::gen::inRange<unsigned>(0, 64),
                                                     rc::gen::inRange<int>(-3, 4)),
                                       [](std::tuple<unsigned, int> t)
                                       { return (u64(1) << std::get<0>(t)) + u64(std::get<1>(t)); })},
                      {1, rc::gen::map(rc::gen::arbitrary<u64>(), [](u64 v) { return ~(v >> 40); })}}));
        auto exp = rc::gen::resize(100, rc::gen::inRange<unsigned>(0, 64));
        bool ok  = rc::check(
            [&]
            {
                u64      x = *val;
                unsigned e = *exp;
                u64      a = u64(1) << e;
                for (auto fn : fns_xa)
                    RC_ASSERT(eval(fn, x, a));
                for (auto fn : fns_x)
                    RC_ASSERT(eval(fn, x, 1));
            });
        write_stats(out, ("rc-" + shard).c_str(), false);
        return ok ? 0 : 1;
    }
    return 3;
}
