// hist_pools.hpp — memory_pool and memory_pool_collection subjects
#pragma once
#include <foonathan/memory/memory_pool.hpp>
#include <foonathan/memory/memory_pool_collection.hpp>

#include "hist.hpp"

namespace hist
{
    template <class PoolType>
    struct PoolName;
    template <>
    struct PoolName<fm::node_pool>
    {
        static constexpr const char* v = "node";
    };
    template <>
    struct PoolName<fm::array_pool>
    {
        static constexpr const char* v = "array";
    };
    template <>
    struct PoolName<fm::small_node_pool>
    {
        static constexpr const char* v = "small";
    };

    inline size_t nodes_for_class(uint32_t c)
    {
        static const size_t t[] = {1, 2, 3, 5, 8, 13, 20, 64, 254, 255, 256, 300, 511, 600};
        return t[c % (sizeof t / sizeof t[0])];
    }

    template <class PoolType, class Up>
    class PoolSubj
    : public Holder<fm::memory_pool<PoolType, typename Up::type>, PoolSubj<PoolType, Up>>
    {
    public:
        using T       = fm::memory_pool<PoolType, typename Up::type>;
        using Base    = Holder<T, PoolSubj<PoolType, Up>>;
        using traits  = fm::allocator_traits<T>;
        using ctraits = fm::composable_allocator_traits<T>;

        explicit PoolSubj(Ctx& c) : Base(c)
        {
            this->fam       = F_POOL;
            this->name      = std::string("P-") + PoolName<PoolType>::v + "/" + Up::info.name;
            this->up        = Up::info;
            this->arrays_ok = PoolType::value;
            node_size_      = c.node_size ? c.node_size : 1;
            size_t n        = nodes_for_class(c.block_class);
            size_t wanted   = T::min_block_size(node_size_, n) + (c.block_extra % 4 ? c.block_extra % 64 : 0);
            if (Up::info.bounded && !Up::info.is_fixed1 && wanted > 16384)
                wanted = 16384;
            if (wanted < T::min_block_size(node_size_, 1))
                wanted = T::min_block_size(node_size_, 1);
            // documented precondition: block_size >= min_block_size(node_size, 1); bounded
            // sources cap the block size, so shrink the node size until it holds
            while (node_size_ > 1 && legal_block_size<Up>(wanted) < T::min_block_size(node_size_, 1))
            {
                node_size_ /= 2;
                wanted = T::min_block_size(node_size_, 1);
            }
            block_size_  = legal_block_size<Up>(wanted);
            c.block_size = block_size_;
            this->init(c.obj_above);
        }
        T* fresh(void* st, int owner)
        {
            return construct_with_upstream<Up, T>(st, this->ctx_, owner, block_size_, node_size_);
        }
        T* fresh_other(void* st, int owner, int variant)
        {
            size_t ns = (variant / 2) % 2 && node_size_ > 1 ? node_size_ / 2 : node_size_;
            return construct_with_upstream<Up, T>(st, this->ctx_, owner, block_size_, ns);
        }
        void use_a_little(T& t)
        {
            (void)t.allocate_node();
            (void)t.allocate_node();
        }

        void* alloc(const Req& r) override
        {
            T& t = this->cur();
            if (r.iface == MEMBER)
                return r.array ? t.allocate_array(r.count) : t.allocate_node();
            return r.array ? traits::allocate_array(t, r.count, r.size, r.align) :
                             traits::allocate_node(t, r.size, r.align);
        }
        void* try_alloc(const Req& r) override
        {
            T& t = this->cur();
            return r.array ? ctraits::try_allocate_array(t, r.count, r.size, r.align) :
                             ctraits::try_allocate_node(t, r.size, r.align);
        }
        void dealloc(void* p, const Req& r) override
        {
            T& t = this->cur();
            if (r.iface == MEMBER)
            {
                if (r.array)
                    t.deallocate_array(p, r.count);
                else
                    t.deallocate_node(p);
            }
            else if (r.array)
                traits::deallocate_array(t, p, r.count, r.size, r.align);
            else
                traits::deallocate_node(t, p, r.size, r.align);
        }
        bool try_dealloc(void* p, const Req& r) override
        {
            T& t = this->cur();
            return r.array ? ctraits::try_deallocate_array(t, p, r.count, r.size, r.align) :
                             ctraits::try_deallocate_node(t, p, r.size, r.align);
        }
        size_t max_node() override
        {
            return traits::max_node_size(this->cur());
        }
        size_t max_array() override
        {
            return traits::max_array_size(this->cur());
        }
        size_t max_align() override
        {
            return traits::max_alignment(this->cur());
        }
        size_t node_size_of(size_t) override
        {
            return this->cur().node_size();
        }
        size_t nominal_size() override
        {
            return this->cur().node_size();
        }
        void caps(std::vector<size_t>& out, size_t) override
        {
            out.clear();
            out.push_back(this->cur().capacity_left());
            out.push_back(this->cur().next_capacity());
        }
        const char* walk(size_t, size_t& reachable) override
        {
            return this->cur().verif_walk(reachable);
        }

    private:
        size_t node_size_, block_size_;
    };

    template <class B>
    struct BucketName;
    template <>
    struct BucketName<fm::identity_buckets>
    {
        static constexpr const char* v      = "id";
        static constexpr bool        is_log = false;
    };
    template <>
    struct BucketName<fm::log2_buckets>
    {
        static constexpr const char* v      = "log2";
        static constexpr bool        is_log = true;
    };

    template <class PoolType, class Buckets, class Up>
    class CollSubj : public Holder<fm::memory_pool_collection<PoolType, Buckets, typename Up::type>,
                                   CollSubj<PoolType, Buckets, Up>>
    {
    public:
        using T       = fm::memory_pool_collection<PoolType, Buckets, typename Up::type>;
        using Base    = Holder<T, CollSubj<PoolType, Buckets, Up>>;
        using traits  = fm::allocator_traits<T>;
        using ctraits = fm::composable_allocator_traits<T>;
        using list_t  = typename PoolType::type;
        static constexpr size_t min_elem = list_t::min_element_size;
        static constexpr bool   is_log   = BucketName<Buckets>::is_log;

        static size_t bucket_size(size_t s)
        {
            if (s < min_elem)
                s = min_elem;
            return is_log ? ref_pow2_ceil(s) : s;
        }
        static size_t n_buckets(size_t max_node)
        {
            if (!is_log)
                return max_node - min_elem + 1;
            size_t n = 0;
            for (size_t p = ref_pow2_ceil(min_elem); p <= ref_pow2_ceil(max_node); p *= 2)
                ++n;
            return n;
        }

        explicit CollSubj(Ctx& c) : Base(c)
        {
            this->fam  = F_COLL;
            this->name = std::string("K-") + PoolName<PoolType>::v + "-" + BucketName<Buckets>::v
                         + "/" + Up::info.name;
            this->up        = Up::info;
            this->arrays_ok = PoolType::value;
            max_node_       = c.node_size < min_elem ? min_elem : c.node_size;
            if (!is_log && max_node_ > 96)
                max_node_ = 96; // keeps the bucket array (one list per size) small
            if (max_node_ > 512)
                max_node_ = 512;
            size_t nb     = n_buckets(max_node_);
            size_t top    = bucket_size(max_node_);
            // documented: max_node_size smaller than block_size / number of pools; the block must
            // also hold the bucket array. Stay comfortably inside that contract.
            size_t mult   = 2 + c.block_class % 7; // each bucket's default share: 2..8 top nodes
            mult_         = mult;
            size_t wanted = arena_off + nb * (sizeof(list_t) + 16) + 64
                            + nb * (mult * top + 32) + (c.block_extra % 3 ? c.block_extra % 128 : 0);
            if (PoolType::value == false) // small lists need a chunk header per insert
                wanted += nb * 32;
            block_size_  = legal_block_size<Up>(wanted);
            c.block_size = block_size_;
            this->init(c.obj_above);
        }
        T* fresh(void* st, int owner)
        {
            return construct_with_upstream<Up, T>(st, this->ctx_, owner, block_size_, max_node_);
        }
        T* fresh_other(void* st, int owner, int variant)
        {
            // a different number of buckets than the source (smaller; larger only where the block
            // was sized generously enough for the documented block_size / pools relation)
            size_t mx = max_node_;
            if ((variant / 2) % 3 == 1 && max_node_ / 2 >= min_elem)
                mx = max_node_ / 2;
            else if ((variant / 2) % 3 == 2 && is_log && mult_ >= 6 && max_node_ * 2 <= 512)
                mx = max_node_ * 2;
            return construct_with_upstream<Up, T>(st, this->ctx_, owner, block_size_, mx);
        }
        void use_a_little(T& t)
        {
            (void)t.allocate_node(max_node_);
            (void)t.allocate_node(min_elem);
        }

        void* alloc(const Req& r) override
        {
            T& t = this->cur();
            if (r.iface == MEMBER)
                return r.array ? t.allocate_array(r.count, r.size) : t.allocate_node(r.size);
            return r.array ? traits::allocate_array(t, r.count, r.size, r.align) :
                             traits::allocate_node(t, r.size, r.align);
        }
        void* try_alloc(const Req& r) override
        {
            T& t = this->cur();
            return r.array ? ctraits::try_allocate_array(t, r.count, r.size, r.align) :
                             ctraits::try_allocate_node(t, r.size, r.align);
        }
        void dealloc(void* p, const Req& r) override
        {
            T& t = this->cur();
            if (r.iface == MEMBER)
            {
                if (r.array)
                    t.deallocate_array(p, r.count, r.size);
                else
                    t.deallocate_node(p, r.size);
            }
            else if (r.array)
                traits::deallocate_array(t, p, r.count, r.size, r.align);
            else
                traits::deallocate_node(t, p, r.size, r.align);
        }
        bool try_dealloc(void* p, const Req& r) override
        {
            T& t = this->cur();
            return r.array ? ctraits::try_deallocate_array(t, p, r.count, r.size, r.align) :
                             ctraits::try_deallocate_node(t, p, r.size, r.align);
        }
        size_t max_node() override
        {
            return traits::max_node_size(this->cur());
        }
        size_t max_array() override
        {
            return traits::max_array_size(this->cur());
        }
        size_t max_align() override
        {
            return traits::max_alignment(this->cur());
        }
        size_t node_size_of(size_t s) override
        {
            return bucket_size(s);
        }
        size_t nominal_size() override
        {
            return max_node_;
        }
        void caps(std::vector<size_t>& out, size_t for_size) override
        {
            out.clear();
            out.push_back(this->cur().capacity_left());
            out.push_back(this->cur().next_capacity());
            if (for_size && for_size <= this->cur().max_node_size())
                out.push_back(this->cur().pool_capacity_left(for_size));
            else
                out.push_back(0);
        }
        bool reserve(size_t size, size_t cap) override
        {
            this->cur().reserve(size, cap);
            return true;
        }
        const char* walk(size_t size, size_t& reachable) override
        {
            if (!size || size > this->cur().max_node_size())
                size = this->cur().max_node_size();
            return this->cur().verif_walk(size, reachable);
        }

    private:
        size_t max_node_, block_size_, mult_ = 2;
    };

} // namespace hist
