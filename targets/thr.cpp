// thr.cpp — C13 (thread_safe_allocator serialises all access) and C14 (temporary allocator scopes;
// one temporary stack per live thread; stacks reused; everything freed at exit).
#include <atomic>
#include <condition_variable>
#include <functional>
#include <map>
#include <mutex>
#include <set>
#include <thread>

#include <pthread.h>
#include <sys/wait.h>
#include <unistd.h>

#include <foonathan/memory/allocator_storage.hpp>
#include <foonathan/memory/debugging.hpp>
#include <foonathan/memory/memory_pool.hpp>
#include <foonathan/memory/temporary_allocator.hpp>
#include <foonathan/memory/threading.hpp>
#include <foonathan/memory/tracking.hpp>

#include "../vf/vf.hpp"

#if FOONATHAN_MEMORY_TEMPORARY_STACK_MODE >= 2
namespace foonathan
{
    namespace memory
    {
        namespace detail
        {
            extern void (*verif_yield_hook)(const char* tag); // guarded hook in src/temporary_allocator.cpp
        }
    } // namespace memory
} // namespace foonathan
#endif

namespace fm = foonathan::memory;
using vf::CaseInfo;
using vf::Op;
using vf::Program;
using vf::Spec;
using vf::Verdict;

namespace
{
    struct Fail
    {
        std::mutex  m;
        bool        failed = false;
        Verdict     v;
        std::string prop, subject;
        void operator()(const std::string& oracle, const std::string& msg)
        {
            std::lock_guard<std::mutex> g(m);
            if (failed)
                return;
            failed = true;
            v      = Verdict::fail(prop + "|" + subject + "|" + oracle, msg);
        }
    };
    Fail* F;

    //====================================================================== C13
    std::atomic<unsigned> g_mutex_objects{0}, g_lock_calls{0};
    struct VMutex;
    std::vector<VMutex*>* g_mutexes;
    std::mutex            g_reg_m;

    struct VMutex
    {
        std::mutex                   real;
        std::atomic<std::thread::id> owner{std::thread::id()};
        VMutex()
        {
            ++g_mutex_objects;
            std::lock_guard<std::mutex> g(g_reg_m);
            if (g_mutexes)
                g_mutexes->push_back(this);
        }
        ~VMutex()
        {
            std::lock_guard<std::mutex> g(g_reg_m);
            if (g_mutexes)
                for (auto& p : *g_mutexes)
                    if (p == this)
                        p = nullptr;
        }
        void lock()
        {
            real.lock();
            owner = std::this_thread::get_id();
            ++g_lock_calls;
        }
        bool try_lock()
        {
            if (!real.try_lock())
                return false;
            owner = std::this_thread::get_id();
            ++g_lock_calls;
            return true;
        }
        void unlock()
        {
            if (owner.load() != std::this_thread::get_id())
                bad_unlock = true; // unlocked by a thread that does not hold it (e.g. unlocked twice)
            owner = std::thread::id();
            real.unlock();
        }
        std::atomic<bool> bad_unlock{false};
        bool held_by_me() const
        {
            return owner.load() == std::this_thread::get_id();
        }
    };

    // an *empty* Mutex type: a handle onto one lock shared by everybody who uses it (a valid
    // BasicLockable; emptiness says nothing about whether locking is needed)
    std::unique_ptr<VMutex> g_shared_lock;
    struct EMutex
    {
        void lock()
        {
            g_shared_lock->lock();
        }
        bool try_lock()
        {
            return g_shared_lock->try_lock();
        }
        void unlock()
        {
            g_shared_lock->unlock();
        }
    };
    static_assert(std::is_empty<EMutex>::value, "EMutex must be an empty class");

    // the mutex that must be held when the wrapped allocator is entered (nullptr: none expected)
    std::atomic<VMutex*> g_expected{nullptr};
    std::atomic<int>     g_inside{0};
    std::atomic<unsigned> g_entries{0};
    bool                 g_check_lock = true;

    struct Enter
    {
        explicit Enter(const char* member)
        {
            ++g_entries;
            VMutex* m = g_expected.load();
            if (g_check_lock && (!m || !m->held_by_me()))
                (*F)("unlocked-call", std::string("the wrapped allocator was entered through ") + member
                                          + " without the storage's mutex being held by the calling thread");
            if (g_inside.fetch_add(1) != 0)
                (*F)("concurrent-entry", std::string("two threads were inside the wrapped allocator at once (")
                                             + member + ")");
            for (volatile int i = 0; i < 40; ++i)
            {
            }
        }
        ~Enter()
        {
            g_inside.fetch_sub(1);
        }
    };

    // stateful composable allocator shell (memory from operator new, sizes remembered).
    // ShellT<false> is the documented idiom "empty class that declares itself stateful" (a handle
    // onto state kept elsewhere): wrappers must not conclude statelessness from emptiness.
    template <bool Data>
    struct ShellId
    {
        int id_ = 0;
    };
    template <>
    struct ShellId<false>
    {
    };
    template <bool Data>
    class ShellT : ShellId<Data>
    {
    public:
        using is_stateful = std::true_type;
        explicit ShellT(int id = 0)
        {
            if constexpr (Data)
                this->id_ = id;
        }
        ShellT(ShellT&& o) noexcept : ShellId<Data>(o) {}
        ShellT& operator=(ShellT&& o) noexcept
        {
            static_cast<ShellId<Data>&>(*this) = o;
            return *this;
        }
        void* allocate_node(std::size_t s, std::size_t)
        {
            Enter e("allocate_node");
            return ::operator new(s);
        }
        void* allocate_array(std::size_t c, std::size_t s, std::size_t)
        {
            Enter e("allocate_array");
            return ::operator new(c * s);
        }
        void deallocate_node(void* p, std::size_t, std::size_t) noexcept
        {
            Enter e("deallocate_node");
            ::operator delete(p);
        }
        void deallocate_array(void* p, std::size_t, std::size_t, std::size_t) noexcept
        {
            Enter e("deallocate_array");
            ::operator delete(p);
        }
        void* try_allocate_node(std::size_t s, std::size_t) noexcept
        {
            Enter e("try_allocate_node");
            return ::operator new(s);
        }
        void* try_allocate_array(std::size_t c, std::size_t s, std::size_t) noexcept
        {
            Enter e("try_allocate_array");
            return ::operator new(c * s);
        }
        bool try_deallocate_node(void* p, std::size_t, std::size_t) noexcept
        {
            Enter e("try_deallocate_node");
            ::operator delete(p);
            return true;
        }
        bool try_deallocate_array(void* p, std::size_t, std::size_t, std::size_t) noexcept
        {
            Enter e("try_deallocate_array");
            ::operator delete(p);
            return true;
        }
        std::size_t max_node_size() const
        {
            Enter e("max_node_size");
            return 1 << 20;
        }
        std::size_t max_array_size() const
        {
            Enter e("max_array_size");
            return 1 << 20;
        }
        std::size_t max_alignment() const
        {
            Enter e("max_alignment");
            return 16;
        }
    };
    using Shell      = ShellT<true>;
    using EmptyShell = ShellT<false>;
    static_assert(std::is_empty<EmptyShell>::value, "EmptyShell must be an empty class");
    struct NullTracker
    {
        void on_node_allocation(void*, std::size_t, std::size_t) noexcept {}
        void on_array_allocation(void*, std::size_t, std::size_t, std::size_t) noexcept {}
        void on_node_deallocation(void*, std::size_t, std::size_t) noexcept {}
        void on_array_deallocation(void*, std::size_t, std::size_t, std::size_t) noexcept {}
    };

    // stateless allocator: needs and takes no lock
    std::atomic<unsigned> g_stateless_calls{0};
    struct StatelessShell
    {
        using is_stateful = std::false_type;
        void* allocate_node(std::size_t s, std::size_t)
        {
            ++g_stateless_calls;
            return ::operator new(s);
        }
        void deallocate_node(void* p, std::size_t, std::size_t) noexcept
        {
            ++g_stateless_calls;
            ::operator delete(p);
        }
    };

    enum
    {
        M_alloc_node,
        M_alloc_array,
        M_try_alloc_node,
        M_try_alloc_array,
        M_max_node,
        M_max_array,
        M_max_align,
        M_lock_proxy,
        M_lock_proxy_moved,
        M_lock_proxy_multi,
        M_move_storage,
        M_stress,
        M__count
    };
    const char* mnames[M__count] = {"alloc_node", "alloc_array", "try_alloc_node", "try_alloc_array",
                                    "max_node_size", "max_array_size", "max_alignment", "lock_proxy",
                                    "lock_proxy_moved", "lock_proxy_multi", "move_storage", "stress"};

    template <class Storage>
    struct C13Case
    {
        CaseInfo&            ci;
        std::vector<VMutex*> registry;
        std::set<unsigned>   members;
        unsigned             n_stress = 0;
        explicit C13Case(CaseInfo& c) : ci(c) {}

        VMutex* latest()
        {
            std::lock_guard<std::mutex> g(g_reg_m);
            for (size_t i = registry.size(); i-- > 0;)
                if (registry[i])
                    return registry[i];
            return nullptr;
        }
        void check_released(const char* where)
        {
            VMutex* m = g_expected.load();
            if (m && m->owner.load() != std::thread::id())
                (*F)("lock-not-released", std::string("the mutex is still held after ") + where);
            if (m && m->bad_unlock.load())
                (*F)("unlock-not-held", std::string("the mutex was unlocked while the unlocking thread did not hold it (") + where + ")");
        }

        template <class S>
        void one_call(S& st, unsigned member, const Op& op)
        {
            size_t size = 1 + op.a % 200, count = 1 + op.b % 5;
            switch (member)
            {
            case M_alloc_node:
            {
                void* p = st.allocate_node(size, 8);
                check_released("allocate_node");
                st.deallocate_node(p, size, 8);
                check_released("deallocate_node");
                break;
            }
            case M_alloc_array:
            {
                void* p = st.allocate_array(count, size, 8);
                check_released("allocate_array");
                st.deallocate_array(p, count, size, 8);
                check_released("deallocate_array");
                break;
            }
            case M_try_alloc_node:
            {
                void* p = st.try_allocate_node(size, 8);
                check_released("try_allocate_node");
                st.try_deallocate_node(p, size, 8);
                check_released("try_deallocate_node");
                break;
            }
            case M_try_alloc_array:
            {
                void* p = st.try_allocate_array(count, size, 8);
                check_released("try_allocate_array");
                st.try_deallocate_array(p, count, size, 8);
                check_released("try_deallocate_array");
                break;
            }
            case M_max_node:
                (void)st.max_node_size();
                check_released("max_node_size");
                break;
            case M_max_array:
                (void)st.max_array_size();
                check_released("max_array_size");
                break;
            case M_max_align:
                (void)st.max_alignment();
                check_released("max_alignment");
                break;
            case M_lock_proxy:
            {
                {
                    auto  l = st.lock();
                    void* p = l->allocate_node(size, 8);
                    l->deallocate_node(p, size, 8);
                }
                check_released("the lock() proxy died");
                break;
            }
            case M_lock_proxy_moved:
            {
                if (op.c % 2)
                {
                    // the moved-from proxy dies first while the moved-to proxy is still in use
                    using proxy_t = decltype(st.lock());
                    auto* l  = new proxy_t(st.lock());
                    auto* l2 = new proxy_t(std::move(*l));
                    delete l;
                    VMutex* m = g_expected.load();
                    if (m && !m->held_by_me())
                        (*F)("proxy-lost-lock", "destroying the moved-from lock() proxy released the mutex although the "
                                                "moved-to proxy is still alive");
                    void* p = (*l2)->allocate_node(size, 8);
                    (*l2)->deallocate_node(p, size, 8);
                    delete l2;
                    check_released("the moved-to lock() proxy died");
                    break;
                }
                {
                    auto l = st.lock();
                    {
                        auto  l2 = std::move(l);
                        void* p  = l2->allocate_node(size, 8);
                        (*l2).deallocate_node(p, size, 8);
                        VMutex* m = g_expected.load();
                        if (m && !m->held_by_me())
                            (*F)("proxy-lost-lock", "moving the lock() proxy released the mutex");
                    }
                    check_released("the moved-to lock() proxy died");
                }
                check_released("the moved-from lock() proxy died");
                break;
            }
            default:
            {
                {
                    auto  l = st.lock();
                    void* p = l->allocate_node(size, 8);
                    void* q = l->allocate_array(count, size, 8);
                    (void)l->max_node_size();
                    l->deallocate_array(q, count, size, 8);
                    l->deallocate_node(p, size, 8);
                }
                check_released("the lock() proxy died");
            }
            }
            members.insert(member);
        }

        // free-running threads: the shell flags any concurrent entry
        template <class S>
        void stress(S& st, const Op& op)
        {
            unsigned nthreads = 2 + op.a % 3, iters = 150 + op.b % 200;
            g_check_lock      = true;
            std::vector<std::thread> ts;
            std::atomic<bool>        go{false};
            for (unsigned t = 0; t < nthreads; ++t)
                ts.emplace_back(
                    [&, t]
                    {
                        while (!go.load())
                            std::this_thread::yield();
                        for (unsigned i = 0; i < iters && !F->failed; ++i)
                        {
                            Op o;
                            o.a = i * 7 + t;
                            o.b = i;
                            one_call_mt(st, (i + t * 3 + op.c) % 8, o);
                        }
                    });
            go = true;
            for (auto& t : ts)
                t.join();
            ++n_stress;
        }
        template <class S>
        void one_call_mt(S& st, unsigned member, const Op& op)
        {
            size_t size = 1 + op.a % 200, count = 1 + op.b % 5;
            switch (member)
            {
            case 0:
            {
                void* p = st.allocate_node(size, 8);
                std::memset(p, int(size), size);
                st.deallocate_node(p, size, 8);
                break;
            }
            case 1:
            {
                void* p = st.allocate_array(count, size, 8);
                st.deallocate_array(p, count, size, 8);
                break;
            }
            case 2:
            {
                void* p = st.try_allocate_node(size, 8);
                st.try_deallocate_node(p, size, 8);
                break;
            }
            case 3:
            {
                void* p = st.try_allocate_array(count, size, 8);
                st.try_deallocate_array(p, count, size, 8);
                break;
            }
            case 4:
                (void)st.max_node_size();
                break;
            case 5:
                (void)st.max_array_size();
                break;
            case 6:
                (void)st.max_alignment();
                break;
            default:
            {
                auto  l = st.lock();
                void* p = l->allocate_node(size, 8);
                l->deallocate_node(p, size, 8);
            }
            }
        }
    };

    template <class Storage, class Make>
    Verdict run_c13(const char* name, const Program& p, CaseInfo& ci, Make make)
    {
        Fail f;
        f.prop     = "C13";
        f.subject  = name;
        F          = &f;
        ci.subject = name;
        C13Case<Storage> c(ci);
        {
            std::lock_guard<std::mutex> g(g_reg_m);
            g_mutexes = &c.registry;
        }
        g_mutex_objects = 0;
        g_lock_calls    = 0;
        g_entries       = 0;
        g_inside        = 0;
        g_check_lock    = true;
        {
            Shell                    target(1);
            std::unique_ptr<Storage> st(make(target));
            g_expected = c.latest();
            if (!g_expected.load())
                f("no-mutex", "a storage for a stateful allocator with a real mutex type contains no mutex");
            for (auto& op : p.ops)
            {
                if (f.failed)
                    break;
                if (op.kind == M_move_storage)
                {
                    // move construction: the new object has its own mutex
                    std::unique_ptr<Storage> st2(new Storage(std::move(*st)));
                    st         = std::move(st2);
                    g_expected = c.latest();
                    ci.classes.insert("moved-storage");
                }
                else if (op.kind == M_stress)
                    c.stress(*st, op);
                else
                    c.one_call(*st, op.kind, op);
            }
            g_expected = nullptr;
            g_check_lock = false;
        }
        {
            std::lock_guard<std::mutex> g(g_reg_m);
            g_mutexes = nullptr;
        }
        bool composable = false, query = false, proxy = false;
        for (auto m : c.members)
        {
            composable |= m == M_try_alloc_node || m == M_try_alloc_array;
            query |= m >= M_max_node && m <= M_max_align;
            proxy |= m >= M_lock_proxy && m <= M_lock_proxy_multi;
        }
        ci.nontrivial = (c.members.size() >= 6 && composable && query && proxy) || c.n_stress > 0;
        if (c.n_stress)
            ci.classes.insert("threads");
        ci.counters["wrapped_entries"] += g_entries.load();
        ci.counters["lock_calls"] += g_lock_calls.load();
        F = nullptr;
        return f.failed ? f.v : Verdict::pass();
    }

    Verdict run_c13_stateless(const Program& p, CaseInfo& ci)
    {
        Fail f;
        f.prop     = "C13";
        f.subject  = "stateless";
        F          = &f;
        ci.subject = "direct<stateless>,VMutex";
        std::vector<VMutex*> reg;
        {
            std::lock_guard<std::mutex> g(g_reg_m);
            g_mutexes = &reg;
        }
        g_mutex_objects = 0;
        g_lock_calls    = 0;
        {
            using S = fm::allocator_storage<fm::direct_storage<StatelessShell>, VMutex>;
            S st{StatelessShell{}};
            std::vector<std::thread> ts;
            unsigned                 n = 0;
            for (auto& op : p.ops)
            {
                void* q = st.allocate_node(1 + op.a % 100, 8);
                st.deallocate_node(q, 1 + op.a % 100, 8);
                (void)st.max_node_size();
                ++n;
            }
            for (unsigned t = 0; t < 3; ++t)
                ts.emplace_back(
                    [&]
                    {
                        for (int i = 0; i < 100; ++i)
                        {
                            void* q = st.allocate_node(32, 8);
                            st.deallocate_node(q, 32, 8);
                        }
                    });
            for (auto& t : ts)
                t.join();
            if (g_mutex_objects.load() != 0)
                f("stateless-has-mutex", "a storage of a stateless allocator instantiated the mutex type");
            if (g_lock_calls.load() != 0)
                f("stateless-locked", "a stateless allocator was locked");
            if (sizeof(S) > sizeof(void*))
                f("stateless-size", "storage of a stateless allocator is larger than a pointer");
            ci.nontrivial = n >= 1;
            ci.classes.insert("stateless");
        }
        {
            std::lock_guard<std::mutex> g(g_reg_m);
            g_mutexes = nullptr;
        }
        F = nullptr;
        return f.failed ? f.v : Verdict::pass();
    }

    //====================================================================== C14
    enum
    {
        T_start,      // start thread a
        T_init_ctor,  // temporary_stack_initializer constructed in thread a (b%2: deferred)
        T_get_stack,  // get_temporary_stack()
        T_open,       // open a temporary_allocator scope
        T_alloc,      // allocate in the innermost scope
        T_close,      // close innermost scope
        T_init_dtor,  // destroy the initializer
        T_exit,       // thread exits (joined)
        T_shrink,     // request shrink_to_fit on the innermost scope
        T_open_explicit, // scope on an explicit temporary_stack object
        T_advance,       // let a thread that is stopped inside a list operation run to its next scheduling point
        T_race,          // single-preemption schedule: thread x runs k segments of acquiring a stack, thread y acquires one completely, x finishes
        T__count
    };
    const char* tnames[T__count] = {"start", "init_ctor", "get_stack", "open", "alloc", "close", "init_dtor",
                                    "exit", "shrink", "open_explicit", "advance", "race"};

    struct Scope
    {
        std::unique_ptr<fm::temporary_stack>     own_stack; // explicit stack (destroyed after the scope)
        std::unique_ptr<fm::temporary_allocator> alloc;
        std::vector<std::pair<char*, size_t>>    allocs;
        size_t                                   first_size = 0, first_align = 0;
        char*                                    first_addr = nullptr;
        bool                                     shrink = false;
        bool                                     dirty  = false; // the block cache was purged while this scope was open
        bool                                     first_grew = false;   // the first allocation needed a new block
        bool                                     failed_before_first = false;
        unsigned char                            tag = 0;
    };

    // one actor = one OS thread executing commands posted by the scheduler (main thread of the child).
    // With the guarded yield hook installed an actor also stops at every scheduling point inside the
    // library's stack-list operations; the scheduler decides who continues (one actor runs at a time).
    struct Actor;
    thread_local Actor* tl_actor = nullptr;

    struct Actor
    {
        pthread_t                  handle{};
        bool                       has_thread = false;
        std::mutex                 m;
        std::condition_variable    cv;
        std::function<void()>      cmd;
        bool                       has_cmd = false, done = true, quit = false, started = false, exited = false;
        bool                       yielded = false, resume_flag = false, yield_enabled = false, terminated = false;
        const char*                last_tag = "";
        std::unique_ptr<fm::temporary_stack_initializer> init;
        std::vector<Scope>         scopes;
        const void*                holds = nullptr; // stack this thread currently holds (model)
        bool                       acquiring = false;      // inside an operation that may acquire a stack
        bool                       exit_requested = false; // no further steps are accepted
        unsigned                   shrinks_since = 0;

        static void* entry(void* self)
        {
            auto* a  = static_cast<Actor*>(self);
            tl_actor = a;
            a->run_loop();
            return nullptr; // thread-local destructors (the library's exit detector) run after this
        }
        void run_loop()
        {
            for (;;)
            {
                std::unique_lock<std::mutex> l(m);
                cv.wait(l, [&] { return has_cmd || quit; });
                if (quit)
                    return;
                auto c  = std::move(cmd);
                has_cmd = false;
                l.unlock();
                c();
                l.lock();
                done = true;
                cv.notify_all();
            }
        }
        // called on the actor's thread from inside the library
        void yield_point(const char* tag)
        {
            std::unique_lock<std::mutex> l(m);
            yielded  = true;
            last_tag = tag;
            cv.notify_all();
            cv.wait(l, [&] { return resume_flag; });
            resume_flag = false;
            yielded     = false;
        }
        bool in_flight()
        {
            std::lock_guard<std::mutex> l(m);
            return !done;
        }
        // posts f and waits until it finished or stopped at a scheduling point
        void exec(std::function<void()> f)
        {
            std::unique_lock<std::mutex> l(m);
            cmd     = std::move(f);
            has_cmd = true;
            done    = false;
            cv.notify_all();
            cv.wait(l, [&] { return done || yielded; });
        }
        // lets a stopped actor run to its next scheduling point or to the end of its command
        void resume()
        {
            std::unique_lock<std::mutex> l(m);
            if (!yielded)
                return;
            resume_flag = true;
            yielded     = false;
            cv.notify_all();
            cv.wait(l, [&] { return done || yielded; });
        }
    };

    void yield_hook(const char* tag)
    {
        Actor* a = tl_actor;
        if (a && a->yield_enabled)
            a->yield_point(tag);
    }

    struct C14
    {
        Fail&                  fail;
        std::vector<std::unique_ptr<Actor>> actors; // index 0 = the (child's) main thread: runs inline
        std::set<const void*>  stacks_seen;
        unsigned               peak_holding = 0, uses = 0, n_reuse_chance = 0, n_switches = 0, n_init_dtor_before_use = 0;
        unsigned               depth_max = 0, growth_inner = 0, n_replay = 0;
        int                    last_actor = -1;
        bool                   mode1;

        bool hooks = false;
        C14(Fail& f, unsigned n, bool m1, bool with_hooks) : fail(f), mode1(m1), hooks(with_hooks)
        {
            for (unsigned i = 0; i < n; ++i)
                actors.emplace_back(new Actor);
            actors[0]->started = true; // main
        }

        unsigned n_races = 0;
        unsigned n_inner_switches = 0; // scheduling decisions taken while an actor was inside a list operation
        void drain(unsigned a)
        {
            Actor& A = *actors[a];
            while (A.in_flight())
                A.resume();
        }
        void on(unsigned a, std::function<void()> f)
        {
            if (int(a) != last_actor)
            {
                ++n_switches;
                for (auto& o : actors)
                    if (o.get() != actors[a].get() && o->has_thread && !o->terminated && o->in_flight())
                    {
                        ++n_inner_switches;
                        break;
                    }
            }
            last_actor = int(a);
            if (a == 0)
                f();
            else
            {
                drain(a); // an actor finishes its previous step before it starts the next one
                actors[a]->exec(std::move(f));
            }
        }
        // one more segment of an actor that is stopped inside a library operation
        void advance(unsigned a)
        {
            Actor& A = *actors[a];
            if (a == 0 || !A.has_thread || A.terminated)
                return;
            if (A.in_flight())
            {
                if (int(a) != last_actor)
                    ++n_inner_switches;
                last_actor = int(a);
                A.resume();
            }
            else if (A.exit_requested && !A.quit)
            {
                {
                    std::lock_guard<std::mutex> l(A.m);
                    A.quit = true;
                    A.cv.notify_all();
                }
                join_step(a);
            }
            else if (A.quit)
                join_step(a);
        }
        // thread exit is a sequence of scheduled steps too: the library's thread-exit detector
        // runs (and stops at scheduling points) after the thread function returned
        bool join_step(unsigned a)
        {
            Actor& A = *actors[a];
            for (int spin = 0; spin < 20000; ++spin)
            {
                {
                    std::unique_lock<std::mutex> l(A.m);
                    if (A.yielded && spin > 0)
                        return false; // stopped again inside the exit path
                    if (A.yielded)
                    {
                        A.resume_flag = true;
                        A.yielded     = false;
                        A.cv.notify_all();
                    }
                }
                timespec ts;
                clock_gettime(CLOCK_REALTIME, &ts);
                ts.tv_nsec += 200000;
                if (ts.tv_nsec >= 1000000000)
                {
                    ts.tv_sec += 1;
                    ts.tv_nsec -= 1000000000;
                }
                if (pthread_timedjoin_np(A.handle, nullptr, &ts) == 0)
                {
                    A.terminated = true;
                    A.exited     = true;
                    A.holds      = nullptr;
                    return true;
                }
            }
            return false;
        }

        // threads that hold a stack or are inside an operation that may acquire one: a thread that
        // found every existing stack taken when it looked creates a new one even if a stack is given
        // back before it is done
        unsigned holding_threads() const
        {
            unsigned n = 0;
            for (auto& a : actors)
                n += a->holds != nullptr || a->acquiring;
            return n;
        }
        void begin_acquire(unsigned a)
        {
            actors[a]->acquiring = true;
            unsigned h           = holding_threads();
            if (h > peak_holding)
                peak_holding = h;
        }

        // model: thread `a` uses stack s now
        void use(unsigned a, const void* s)
        {
            ++uses;
            for (unsigned o = 0; o < actors.size(); ++o)
                if (o != a && actors[o]->holds == s && actors[o]->started && !actors[o]->exited
                    && !actors[o]->quit) // a thread inside its exit path does not use its stack any more
                {
                    fail("shared-stack", "thread " + std::to_string(a) + " uses the temporary stack that live thread "
                                             + std::to_string(o) + " still holds");
                    return;
                }
            actors[a]->holds     = s;
            actors[a]->acquiring = false;
            bool fresh           = stacks_seen.insert(s).second;
            unsigned h       = holding_threads();
            if (h > peak_holding)
                peak_holding = h;
            if (fresh && !mode1 && stacks_seen.size() > peak_holding)
                fail("stack-not-reused", "a new temporary stack was created although an existing one was unused ("
                                             + std::to_string(stacks_seen.size()) + " stacks for at most "
                                             + std::to_string(peak_holding) + " simultaneously holding threads)");
        }

        bool usable(unsigned a)
        {
            return a < actors.size() && actors[a]->started && !actors[a]->exited && !actors[a]->quit
                   && !actors[a]->exit_requested;
        }

        void step(const Op& op)
        {
            unsigned a = op.a % actors.size();
            Actor&   A = *actors[a];
            // an actor finishes the step it is in before its next one starts; the guards below must
            // see the settled state (on() would drain anyway)
            if (op.kind != T_advance && a != 0 && A.has_thread && !A.terminated && !A.quit && !A.exit_requested)
                drain(a);
            switch (op.kind)
            {
            case T_start:
                if (a == 0 || A.started)
                    return;
                A.started       = true;
                A.yield_enabled = hooks;
                A.has_thread    = pthread_create(&A.handle, nullptr, &Actor::entry, &A) == 0;
                if (mode1)
                    on(a,
                       [this, a, op]
                       {
                           Actor& A = *actors[a];
                           (void)A;
                           A.init.reset(new fm::temporary_stack_initializer());
                           use(a, &fm::get_temporary_stack());
                       });
                return;
            case T_init_ctor:
                if (!usable(a) || A.init || mode1)
                    return;
                if (op.b % 3 != 0)
                    begin_acquire(a);
                on(a,
                   [this, a, op]
                   {
                       Actor& A = *actors[a];
                       (void)A;
                       if (op.b % 3 == 0)
                           A.init.reset(new fm::temporary_stack_initializer(
                               fm::temporary_stack_initializer::defer_create));
                       else
                       {
                           A.init.reset(new fm::temporary_stack_initializer(1024 + op.c % 4096));
                           // a non-deferred initializer acquires the thread's stack right away:
                           // observe it (the model counts acquisitions through use events)
                           use(a, &fm::get_temporary_stack());
                       }
                   });
                return;
            case T_get_stack:
                if (!usable(a))
                    return;
                begin_acquire(a);
                on(a,
                   [this, a, op]
                   {
                       Actor& A = *actors[a];
                       (void)A;
                       auto& s = fm::get_temporary_stack();
                       use(a, &s);
                   });
                return;
            case T_open:
            case T_open_explicit:
                if (!usable(a) || A.scopes.size() >= 6)
                    return;
                if (op.kind == T_open && (A.scopes.empty() || !A.scopes.front().own_stack))
                    begin_acquire(a);
                on(a,
                   [this, a, op]
                   {
                       Actor& A = *actors[a];
                       (void)A;
                       Scope sc;
                       sc.tag = static_cast<unsigned char>(17 * (a + 1) + A.scopes.size());
                       if (op.kind == T_open_explicit && A.scopes.empty())
                       {
                           sc.own_stack.reset(new fm::temporary_stack(512 + op.b % 2048));
                           sc.alloc.reset(new fm::temporary_allocator(*sc.own_stack));
                       }
                       else if (!A.scopes.empty() && A.scopes.front().own_stack)
                       {
                           // nested scopes on the explicit stack
                           sc.alloc.reset(new fm::temporary_allocator(*A.scopes.front().own_stack));
                       }
                       else
                       {
                           sc.alloc.reset(new fm::temporary_allocator());
                           use(a, &sc.alloc->get_stack());
                       }
                       A.scopes.push_back(std::move(sc));
                       if (A.scopes.size() > depth_max)
                           depth_max = unsigned(A.scopes.size());
                   });
                return;
            case T_alloc:
                if (!usable(a) || A.scopes.empty())
                    return;
                on(a,
                   [this, a, op]
                   {
                       Actor& A = *actors[a];
                       (void)A;
                       static const size_t sizes[] = {1, 8, 24, 100, 256, 1000, 3000, 5000, 9000};
                       Scope&              sc = A.scopes.back();
                       size_t size = sizes[op.b % 9], align = size_t(1) << (op.c % 6);
                       if (!A.scopes.front().own_stack)
                           use(a, &sc.alloc->get_stack());
                       size_t before = sc.alloc->get_stack().next_capacity();
                       char*  p      = nullptr;
                       try
                       {
                           p = static_cast<char*>(sc.alloc->allocate(size, align));
                       }
                       catch (std::bad_alloc&)
                       {
                           // request larger than the next block: refused. The attempt may have moved
                           // the stack on to a fresh block, so the address replay of the open scopes
                           // would have to repeat it: skip the replay for them
                           for (auto& o : A.scopes)
                               if (!o.first_addr)
                                   o.failed_before_first = true;
                           return;
                       }
                       if (!p || reinterpret_cast<uintptr_t>(p) % align)
                       {
                           fail("bad-allocation", "temporary allocation null or misaligned");
                           return;
                       }
                       if (sc.alloc->get_stack().next_capacity() != before && A.scopes.size() >= 2)
                           ++growth_inner;
                       std::memset(p, sc.tag, size);
                       if (sc.allocs.empty())
                       {
                           sc.first_size  = size;
                           sc.first_align = align;
                           sc.first_addr  = p;
                           sc.first_grew  = sc.alloc->get_stack().next_capacity() != before;
                       }
                       sc.allocs.emplace_back(p, size);
                   });
                return;
            case T_shrink:
                if (!usable(a) || A.scopes.empty())
                    return;
                on(a,
                   [this, a, op]
                   {
                       Actor& A = *actors[a];
                       (void)A;
                       A.scopes.back().alloc->shrink_to_fit();
                       A.scopes.back().shrink = true;
                   });
                return;
            case T_close:
                if (!usable(a) || A.scopes.empty())
                    return;
                on(a, [this, a] { close_scope(a); });
                return;
            case T_init_dtor:
                if (!usable(a) || !A.init || !A.scopes.empty() || mode1)
                    return;
                on(a,
                   [this, a, op]
                   {
                       Actor& A = *actors[a];
                       (void)A;
                       A.init.reset();
                       A.holds = nullptr; // the model: the stack is given up
                       ++n_init_dtor_before_use;
                   });
                return;
            case T_exit:
                if (a == 0 || !usable(a))
                    return;
                begin_exit(a);
                return;
            case T_advance:
                // one segment, or a run of segments (a thread has to get deep into an operation
                // before another one is scheduled)
                for (unsigned i = 0, n = op.b % 2 ? 1 + op.c % 8 : 1; i < n; ++i)
                    advance(a);
                return;
            case T_race:
            {
                unsigned n = unsigned(actors.size());
                if (n < 3 || !hooks)
                    return;
                unsigned x = 1 + op.a % (n - 1), y = 1 + (x + op.b % (n - 2)) % (n - 1);
                if (x == y)
                    return;
                for (unsigned w : {x, y})
                    if (!actors[w]->started)
                    {
                        Op st{};
                        st.kind = T_start;
                        st.a    = w;
                        step(st);
                    }
                if (!usable(x) || !usable(y))
                    return;
                Op g{};
                g.kind = T_get_stack;
                g.a    = x;
                step(g); // x stops at its first scheduling point (if it has to acquire a stack at all)
                for (unsigned i = 0; i < op.c % 10; ++i)
                    if (actors[x]->in_flight())
                        advance(x);
                g.a = y;
                step(g);
                drain(y);
                drain(x);
                ++n_races;
                return;
            }
            default:
                return;
            }
        }

        void close_scope(unsigned a)
        {
            Actor& A  = *actors[a];
            Scope  sc = std::move(A.scopes.back());
            A.scopes.pop_back();
            // everything allocated in older scopes (and in this one, until now) is intact
            for (auto& pr : sc.allocs)
                for (size_t i = 0; i < pr.second; ++i)
                    if (static_cast<unsigned char>(pr.first[i]) != sc.tag)
                    {
                        fail("scope-memory-modified", "memory of a temporary scope was modified before the scope ended");
                        return;
                    }
            fm::temporary_stack* stack = &sc.alloc->get_stack();
            bool                 shr   = sc.shrink;
            sc.alloc.reset(); // the scope ends: the stack must be exactly where it was
            if (shr)
                for (auto& older : A.scopes)
                    older.dirty = true;
            for (auto& older : A.scopes)
                for (auto& pr : older.allocs)
                    for (size_t i = 0; i < pr.second; ++i)
                        if (static_cast<unsigned char>(pr.first[i]) != older.tag)
                        {
                            fail("outer-scope-modified", "closing a nested scope modified memory of an outer scope");
                            return;
                        }
            // address replay: the first request of the closed scope lands on the same address again
            // (valid unless the first request needed a fresh block and the block cache has been
            // purged since, or a refused request preceded it)
            if (sc.first_addr && !sc.failed_before_first && (!sc.first_grew || (!shr && !sc.dirty)))
            {
                fm::temporary_allocator probe(*stack);
                char* p = static_cast<char*>(probe.allocate(sc.first_size, sc.first_align));
                if (p != sc.first_addr)
                    fail("scope-not-restored", "after a temporary_allocator was destroyed the same request returned a "
                                               "different address: the stack is not where it was at construction");
                ++n_replay;
            }
            sc.own_stack.reset();
        }

        // begins the exit of thread a (its open scopes and initializer die first); with the yield hook
        // the exit may stop at scheduling points and is completed by later advance steps or finish()
        void begin_exit(unsigned a)
        {
            Actor& A = *actors[a];
            if (A.quit || A.exit_requested)
                return;
            A.exit_requested = true;
            on(a,
               [this, a]
               {
                   Actor& B = *actors[a];
                   while (!B.scopes.empty() && !fail.failed)
                       close_scope(a);
                   bool had_init = bool(B.init);
                   B.init.reset();
                   if (had_init)
                       B.holds = nullptr; // destroying the initializer gives the stack up
                   // (the thread keeps "holding" its stack until it has terminated: the library's
                   // exit detector gives the stack back during thread exit)
               });
            if (A.in_flight())
                return; // stopped inside initializer destruction: the exit continues later
            {
                std::lock_guard<std::mutex> l(A.m);
                A.quit = true;
                A.cv.notify_all();
            }
            join_step(a);
        }
        void finish_actor(unsigned a)
        {
            Actor& A = *actors[a];
            for (int guard = 0; guard < 1000 && !A.terminated; ++guard)
            {
                drain(a);
                if (!A.quit)
                {
                    if (!A.exit_requested)
                        begin_exit(a);
                    drain(a);
                    if (!A.quit)
                    {
                        std::lock_guard<std::mutex> l(A.m);
                        A.quit = true;
                        A.cv.notify_all();
                    }
                }
                join_step(a);
            }
            if (!A.terminated)
                fail("thread-exit-stuck", "a thread did not terminate");
        }

        void finish()
        {
            for (unsigned a = 1; a < actors.size(); ++a)
                if (actors[a]->has_thread && !actors[a]->terminated)
                    finish_actor(a);
            Actor& M = *actors[0];
            while (!M.scopes.empty() && !fail.failed)
                close_scope(0);
            M.init.reset();
        }
    };

    // leak reports at process exit go to this fd (child only)
    int g_report_fd = -1;
    void child_leak_handler(const fm::allocator_info& info, std::ptrdiff_t amount)
    {
        char buf[200];
        int  n = std::snprintf(buf, sizeof buf, "LEAK %s %ld\n", info.name, long(amount));
        if (g_report_fd >= 0 && n > 0)
            (void)!write(g_report_fd, buf, size_t(n));
    }

    Verdict run_c14(const Program& p, CaseInfo& ci, bool mode1)
    {
        auto     P        = [&](size_t i) { return i < p.params.size() ? p.params[i] : 0u; };
        unsigned nthreads = 1 + P(0) % 4; // 1: single-thread nesting histories
        ci.subject        = nthreads == 1 ? "nesting" : "threads=" + std::to_string(nthreads);
        int fds[2];
        if (pipe(fds) != 0)
            return Verdict::pass();
        std::fflush(nullptr);
        pid_t pid = fork();
        if (pid == 0)
        {
            close(fds[0]);
            alarm(25);
            signal(SIGABRT, SIG_DFL);
            g_report_fd = fds[1];
            fm::set_leak_handler(child_leak_handler);
            Fail f;
            f.prop    = "C14";
            f.subject = nthreads == 1 ? "nesting" : "threads";
            F         = &f;
            try
            {
                bool hooks = !mode1 && nthreads > 1 && P(1) % 3 != 0;
#if FOONATHAN_MEMORY_TEMPORARY_STACK_MODE >= 2
                fm::detail::verif_yield_hook = hooks ? yield_hook : nullptr;
#endif
                C14 c(f, nthreads, mode1, hooks);
                if (mode1)
                    c.actors[0]->init.reset(new fm::temporary_stack_initializer());
                for (auto& op : p.ops)
                {
                    if (f.failed)
                        break;
                    c.step(op);
                }
                if (!f.failed)
                    c.finish();
                char buf[600];
                int  n;
                if (f.failed)
                    n = std::snprintf(buf, sizeof buf, "FAIL %s\nMSG %s\n", f.v.signature.c_str(), f.v.message.c_str());
                else
                    n = std::snprintf(buf, sizeof buf, "OK uses=%u stacks=%zu peak=%u depth=%u growth_inner=%u replay=%u "
                                                        "switches=%u initdtor=%u threads=%u inner=%u races=%u\n",
                                      c.uses, c.stacks_seen.size(), c.peak_holding, c.depth_max, c.growth_inner,
                                      c.n_replay, c.n_switches, c.n_init_dtor_before_use, nthreads, c.n_inner_switches,
                                      c.n_races);
                (void)!write(fds[1], buf, size_t(n));
                if (f.failed)
                    _exit(0); // never run destructors over a state that already violated the property
            }
            catch (std::exception& e)
            {
                char buf[300];
                int  n = std::snprintf(buf, sizeof buf, "FAIL C14|harness|exception-in-child\nMSG %s\n", e.what());
                (void)!write(fds[1], buf, size_t(n));
                _exit(0);
            }
            catch (...)
            {
                _exit(3);
            }
            // normal process exit: static destructors run (nifty counter, global leak checkers)
            std::exit(0);
        }
        close(fds[1]);
        std::string out;
        char        buf[512];
        ssize_t     n;
        while ((n = read(fds[0], buf, sizeof buf)) > 0)
            out.append(buf, size_t(n));
        close(fds[0]);
        int status = 0;
        waitpid(pid, &status, 0);
        Fail f;
        f.prop    = "C14";
        f.subject = nthreads == 1 ? "nesting" : "threads";
        if (!WIFEXITED(status) || WEXITSTATUS(status) != 0)
        {
            if (WIFEXITED(status) && WEXITSTATUS(status) == 87)
                f("hang", "the case did not finish in the child process");
            else
                f("child-crash", "child process died: status " + std::to_string(status) + " output: " + out.substr(0, 300));
        }
        else if (out.rfind("FAIL ", 0) == 0)
        {
            auto nl  = out.find('\n');
            auto sig = out.substr(5, nl - 5);
            auto msg = out.substr(nl + 1);
            f.failed = true;
            f.v      = Verdict::fail(sig, msg);
        }
        else
        {
            auto pos = out.find("LEAK ");
            if (pos != std::string::npos)
                f("leak-at-exit", "at program exit the library reported: " + out.substr(pos, 120));
            unsigned uses = 0, peak = 0, depth = 0, growth = 0, replay = 0, sw = 0, initd = 0, thr = 0, inner = 0, races = 0;
            size_t   stacks = 0;
            std::sscanf(out.c_str(), "OK uses=%u stacks=%zu peak=%u depth=%u growth_inner=%u replay=%u switches=%u initdtor=%u threads=%u inner=%u races=%u",
                        &uses, &stacks, &peak, &depth, &growth, &replay, &sw, &initd, &thr, &inner, &races);
            if (races)
                ci.classes.insert("single-preemption-race");
            ci.counters["single_preemption_races"] += races;
            if (inner)
                ci.classes.insert("switch-inside-list-operation");
            ci.counters["switches_inside_list_operations"] += inner;
            if (nthreads == 1)
                ci.nontrivial = depth >= 3 && growth >= 1;
            else
                ci.nontrivial = uses >= 2 && sw >= 3 && (peak >= 2 || initd >= 1 || stacks >= 1);
            if (replay)
                ci.classes.insert("address-replay");
            if (growth)
                ci.classes.insert("growth-in-inner-scope");
            if (peak >= 2)
                ci.classes.insert("overlapping-threads");
            if (initd)
                ci.classes.insert("initializer-destroyed-early");
            ci.counters["stack_uses"] += uses;
            ci.counters["replays"] += replay;
        }
        return f.failed ? f.v : Verdict::pass();
    }

    struct ThrTarget : vf::Target
    {
        const char* name() const override
        {
            return "thr";
        }
        bool spec(const std::string& property, Spec& out) const override
        {
            out.nparams = 4;
            if (property == "C13")
            {
                out.max_ops = 40;
                out.kinds.clear();
                for (unsigned m = 0; m < M__count; ++m)
                    out.kinds.push_back({mnames[m], m == M_stress ? 1u : (m == M_move_storage ? 1u : 3u)});
                out.rule = ">= 6 distinct members exercised incl. a composable member, a size query and the lock() proxy "
                           "(deterministic lock-held oracle), or a multi-threaded stress phase with the concurrent-entry detector";
                return true;
            }
            if (property == "C14")
            {
                out.max_ops = 60;
                out.kinds   = {{tnames[0], 4}, {tnames[1], 3}, {tnames[2], 4}, {tnames[3], 8}, {tnames[4], 10},
                               {tnames[5], 7}, {tnames[6], 3}, {tnames[7], 3}, {tnames[8], 1}, {tnames[9], 1}, {tnames[10], 10},
                               {tnames[11], 4}};
                out.rule    = "single thread: nesting depth >= 3 with block growth inside an inner scope; threads: >= 2 "
                              "stack uses with >= 3 context switches and overlapping holders, an initializer destroyed "
                              "before a later use, or sequential threads (reuse)";
                return true;
            }
            return false;
        }
        std::string config_;
        void init(const std::string& c) override
        {
            config_ = c;
        }
        Verdict run(const Spec& spec, const Program& p, CaseInfo& ci) override
        {
            if (spec.property == "C14")
                return run_c14(p, ci, FOONATHAN_MEMORY_TEMPORARY_STACK_MODE == 1);
            unsigned which = p.params.empty() ? 0 : p.params[0] % 11;
            switch (which)
            {
            case 0:
            {
                using S = fm::allocator_storage<fm::direct_storage<Shell>, VMutex>;
                return run_c13<S>("direct<Shell>,VMutex", p, ci, [](Shell&) { return new S(Shell(2)); });
            }
            case 1:
            {
                using S = fm::allocator_storage<fm::reference_storage<Shell>, VMutex>;
                return run_c13<S>("reference<Shell>,VMutex", p, ci, [](Shell& t) { return new S(t); });
            }
            case 2:
            {
                using S = fm::allocator_storage<fm::any_reference_storage, VMutex>;
                return run_c13<S>("any_reference,VMutex", p, ci, [](Shell& t) { return new S(t); });
            }
            case 3:
            {
                using S = fm::thread_safe_allocator<Shell, VMutex>;
                return run_c13<S>("thread_safe_allocator<Shell,VMutex>", p, ci, [](Shell&) { return new S(Shell(3)); });
            }
            case 4:
                return run_c13_stateless(p, ci);
            case 5:
            {
                using S = fm::thread_safe_allocator<EmptyShell, VMutex>;
                return run_c13<S>("thread_safe_allocator<EmptyStateful,VMutex>", p, ci,
                                  [](Shell&) { return new S(EmptyShell()); });
            }
            case 6:
            {
                using TA = fm::tracked_allocator<NullTracker, EmptyShell>;
                using S  = fm::thread_safe_allocator<TA, VMutex>;
                return run_c13<S>("thread_safe_allocator<tracked<EmptyStateful>>,VMutex", p, ci,
                                  [](Shell&) { return new S(TA(NullTracker{}, EmptyShell())); });
            }
            case 7:
            {
                using TA = fm::tracked_allocator<NullTracker, Shell>;
                using S  = fm::thread_safe_allocator<TA, VMutex>;
                return run_c13<S>("thread_safe_allocator<tracked<Shell>>,VMutex", p, ci,
                                  [](Shell&) { return new S(TA(NullTracker{}, Shell(4))); });
            }
            case 9:
            {
                using S = fm::thread_safe_allocator<Shell, EMutex>;
                return run_c13<S>("thread_safe_allocator<Shell,EmptyMutex>", p, ci,
                                  [](Shell&)
                                  {
                                      g_shared_lock.reset(new VMutex); // registers itself as the expected mutex
                                      return new S(Shell(5));
                                  });
            }
            case 10:
            {
                using S = fm::allocator_storage<fm::reference_storage<Shell>, EMutex>;
                return run_c13<S>("reference<Shell>,EmptyMutex", p, ci,
                                  [](Shell& t)
                                  {
                                      g_shared_lock.reset(new VMutex);
                                      return new S(t);
                                  });
            }
            default:
            {
                using S = fm::allocator_storage<fm::direct_storage<EmptyShell>, VMutex>;
                return run_c13<S>("direct<EmptyStateful>,VMutex", p, ci, [](Shell&) { return new S(EmptyShell()); });
            }
            }
        }
    };
} // namespace

vf::Target& vf::the_target()
{
    static ThrTarget t;
    return t;
}
