// hist_s1.cpp — memory_pool subjects
#include "hist_pools.hpp"
using namespace hist;
#define P3(UP)                                                                                     \
    HIST_REG(P_node_##UP, F_POOL, PoolSubj<fm::node_pool, UP>);                                    \
    HIST_REG(P_array_##UP, F_POOL, PoolSubj<fm::array_pool, UP>);                                  \
    HIST_REG(P_small_##UP, F_POOL, PoolSubj<fm::small_node_pool, UP>)
P3(UpG2);
P3(UpG32);
P3(UpFixed);
P3(UpStatic);
P3(UpVirtual);
