// cont.cpp — C10: STL containers on std_allocator over stateful RawAllocators give every piece of memory
// back to the allocator object it came from; std_allocator equality is exactly "same allocator object".
// The two allocators A and B are logging leaves: the Slab validates owner and shape of every release.
#include <algorithm>
#include <deque>
#include <forward_list>
#include <list>
#include <map>
#include <set>
#include <string>
#include <unordered_map>
#include <unordered_set>
#include <vector>

#include <foonathan/memory/smart_ptr.hpp>
#include <foonathan/memory/std_allocator.hpp>

#include "../vf/slab.hpp"
#include "../vf/vf.hpp"

namespace fm = foonathan::memory;
using vf::CaseInfo;
using vf::Op;
using vf::Program;
using vf::Slab;
using vf::Spec;
using vf::Verdict;

namespace
{
    class CLeaf
    {
    public:
        using is_stateful = std::true_type;
        explicit CLeaf(int owner) : owner_(owner) {}
        CLeaf(const CLeaf&)            = delete;
        CLeaf& operator=(const CLeaf&) = delete;
        void* allocate_node(std::size_t size, std::size_t align)
        {
            return Slab::get().allocate(owner_, false, 1, size, align);
        }
        void* allocate_array(std::size_t count, std::size_t size, std::size_t align)
        {
            return Slab::get().allocate(owner_, true, count, size, align);
        }
        void deallocate_node(void* p, std::size_t size, std::size_t align) noexcept
        {
            Slab::get().deallocate(owner_, false, p, 1, size, align);
        }
        void deallocate_array(void* p, std::size_t count, std::size_t size, std::size_t align) noexcept
        {
            Slab::get().deallocate(owner_, true, p, count, size, align);
        }
        std::size_t max_node_size() const
        {
            return size_t(1) << 30;
        }
        std::size_t max_array_size() const
        {
            return size_t(1) << 30;
        }
        int owner() const
        {
            return owner_;
        }

    private:
        int owner_;
    };

    struct Fail
    {
        bool        failed = false;
        Verdict     v;
        std::string subject;
        void operator()(const std::string& oracle, const std::string& msg)
        {
            if (failed)
                return;
            failed = true;
            v      = Verdict::fail("C10|" + subject + "|" + oracle, msg);
        }
    };

    // element access adapters -------------------------------------------------------------
    // minimal RawAllocator: only allocate_node / deallocate_node; arrays (vector and deque buffers)
    // reach it through the default fallbacks of allocator_traits
    class CMinLeaf
    {
    public:
        using is_stateful = std::true_type;
        explicit CMinLeaf(int owner) : owner_(owner) {}
        CMinLeaf(const CMinLeaf&)            = delete;
        CMinLeaf& operator=(const CMinLeaf&) = delete;
        void* allocate_node(std::size_t size, std::size_t align)
        {
            return Slab::get().allocate(owner_, false, 1, size, align);
        }
        void deallocate_node(void* p, std::size_t size, std::size_t align) noexcept
        {
            Slab::get().deallocate(owner_, false, p, 1, size, align);
        }
        int owner() const
        {
            return owner_;
        }

    private:
        int owner_;
    };
    // copyable handle onto allocator state kept elsewhere, declared a *shared* allocator: std_allocator
    // stores a copy; two handles are interchangeable exactly if they name the same owner
    // (moving a handle transfers it, like a handle holding a shared_ptr to its state: the library
    // copies allocator references even where the container moves, so a moved-from container keeps
    // a valid allocator - an allocator's value must survive being moved from)
    bool g_emptied_handle_used = false;
    class CHandle
    {
    public:
        using is_stateful = std::true_type;
        explicit CHandle(int owner) : owner_(owner) {}
        CHandle(const CHandle&)            = default;
        CHandle& operator=(const CHandle&) = default;
        CHandle(CHandle&& o) noexcept : owner_(o.owner_)
        {
            o.owner_ = -1;
        }
        CHandle& operator=(CHandle&& o) noexcept
        {
            owner_   = o.owner_;
            o.owner_ = -1;
            return *this;
        }
        void* allocate_node(std::size_t size, std::size_t align)
        {
            g_emptied_handle_used |= owner_ < 0;
            return Slab::get().allocate(owner_, false, 1, size, align);
        }
        void* allocate_array(std::size_t count, std::size_t size, std::size_t align)
        {
            g_emptied_handle_used |= owner_ < 0;
            return Slab::get().allocate(owner_, true, count, size, align);
        }
        void deallocate_node(void* p, std::size_t size, std::size_t align) noexcept
        {
            Slab::get().deallocate(owner_, false, p, 1, size, align);
        }
        void deallocate_array(void* p, std::size_t count, std::size_t size, std::size_t align) noexcept
        {
            Slab::get().deallocate(owner_, true, p, count, size, align);
        }
        int owner() const
        {
            return owner_;
        }
        friend bool operator==(const CHandle& a, const CHandle& b) noexcept
        {
            return a.owner_ == b.owner_;
        }
        friend bool operator!=(const CHandle& a, const CHandle& b) noexcept
        {
            return a.owner_ != b.owner_;
        }

    private:
        int owner_;
    };
} // namespace
namespace foonathan
{
    namespace memory
    {
        template <>
        struct is_shared_allocator<CHandle> : std::true_type
        {
        };
    } // namespace memory
} // namespace foonathan
namespace
{
    // element types whose size is not a power of two
    template <size_t Words>
    struct EW
    {
        int w[Words];
        EW(int v = 0)
        {
            for (size_t i = 0; i < Words; ++i)
                w[i] = v + int(i);
        }
        explicit operator long() const
        {
            for (size_t i = 0; i < Words; ++i)
                if (w[i] != w[0] + int(i))
                    return -1; // element bytes were overwritten
            return w[0];
        }
        bool operator==(const EW& o) const
        {
            return w[0] == o.w[0];
        }
    };

    template <class C>
    struct Ops;

    template <class C>
    struct SeqBack
    {
        static void ins(C& c, int v)
        {
            c.push_back(typename C::value_type(v));
        }
        static void del(C& c, int v)
        {
            if (c.empty())
                return;
            auto it = c.begin();
            std::advance(it, size_t(v) % c.size());
            c.erase(it);
        }
        static std::vector<long> dump(const C& c)
        {
            std::vector<long> o;
            for (auto& e : c)
                o.push_back(long(e));
            return o;
        }
        static constexpr bool ordered = true;
    };
    template <class T, class A>
    struct Ops<std::vector<T, A>> : SeqBack<std::vector<T, A>>
    {
    };
    template <class T, class A>
    struct Ops<std::deque<T, A>> : SeqBack<std::deque<T, A>>
    {
    };
    template <class T, class A>
    struct Ops<std::list<T, A>> : SeqBack<std::list<T, A>>
    {
    };
    template <class T, class Tr, class A>
    struct Ops<std::basic_string<T, Tr, A>>
    {
        using C = std::basic_string<T, Tr, A>;
        static void ins(C& c, int v)
        {
            c.append(size_t(1 + v % 9), char('a' + v % 26));
        }
        static void del(C& c, int v)
        {
            if (!c.empty())
                c.erase(size_t(v) % c.size(), 1 + size_t(v) % 3);
        }
        static std::vector<long> dump(const C& c)
        {
            return std::vector<long>(c.begin(), c.end());
        }
        static constexpr bool ordered = true;
    };
    template <class T, class A>
    struct Ops<std::forward_list<T, A>>
    {
        using C = std::forward_list<T, A>;
        static void ins(C& c, int v)
        {
            c.push_front(v);
        }
        static void del(C& c, int)
        {
            if (!c.empty())
                c.pop_front();
        }
        static std::vector<long> dump(const C& c)
        {
            return std::vector<long>(c.begin(), c.end());
        }
        static constexpr bool ordered = true;
    };
    template <class C>
    struct SetLike
    {
        static void ins(C& c, int v)
        {
            c.insert(v % 64);
        }
        static void del(C& c, int v)
        {
            c.erase(v % 64);
        }
        static std::vector<long> dump(const C& c)
        {
            std::vector<long> o(c.begin(), c.end());
            std::sort(o.begin(), o.end());
            return o;
        }
        static constexpr bool ordered = false;
    };
    template <class K, class Cm, class A>
    struct Ops<std::set<K, Cm, A>> : SetLike<std::set<K, Cm, A>>
    {
    };
    template <class K, class Cm, class A>
    struct Ops<std::multiset<K, Cm, A>> : SetLike<std::multiset<K, Cm, A>>
    {
    };
    template <class K, class H, class E, class A>
    struct Ops<std::unordered_set<K, H, E, A>> : SetLike<std::unordered_set<K, H, E, A>>
    {
    };
    template <class K, class H, class E, class A>
    struct Ops<std::unordered_multiset<K, H, E, A>> : SetLike<std::unordered_multiset<K, H, E, A>>
    {
    };
    template <class C>
    struct MapLike
    {
        static void ins(C& c, int v)
        {
            c.insert({v % 64, v});
        }
        static void del(C& c, int v)
        {
            c.erase(v % 64);
        }
        static std::vector<long> dump(const C& c)
        {
            std::vector<long> o;
            for (auto& kv : c)
                o.push_back(long(kv.first) * 100000 + kv.second % 100000);
            std::sort(o.begin(), o.end());
            return o;
        }
        static constexpr bool ordered = false;
    };
    template <class K, class V, class Cm, class A>
    struct Ops<std::map<K, V, Cm, A>> : MapLike<std::map<K, V, Cm, A>>
    {
    };
    template <class K, class V, class Cm, class A>
    struct Ops<std::multimap<K, V, Cm, A>> : MapLike<std::multimap<K, V, Cm, A>>
    {
    };
    template <class K, class V, class H, class E, class A>
    struct Ops<std::unordered_map<K, V, H, E, A>> : MapLike<std::unordered_map<K, V, H, E, A>>
    {
    };

    enum
    {
        K_insert,
        K_erase,
        K_clear,
        K_copy_construct,
        K_move_construct,
        K_copy_assign,
        K_move_assign,
        K_swap,
        K_splice,
        K_rebuild,
        K__count
    };
    const char* names[K__count] = {"insert", "erase", "clear", "copy_construct", "move_construct", "copy_assign",
                                   "move_assign", "swap", "splice", "rebuild"};

    // containers whose move assignment / swap in libstdc++ also ask the allocators for equality
    // (deque::_M_replace_map, basic_string::operator=(&&)): for them recorded finding F19 cannot be
    // excluded per operation, the type-erased flavour stays on one allocator object
    template <class C>
    struct compares_on_move : std::false_type
    {
    };
    template <class T, class A>
    struct compares_on_move<std::deque<T, A>> : std::true_type
    {
    };
    template <class T, class Tr, class A>
    struct compares_on_move<std::basic_string<T, Tr, A>> : std::true_type
    {
    };
    // a type-erased std_allocator may be built from another type-erased reference's get_allocator();
    // it then has to refer to the allocator, not to that (possibly short-lived) reference object
    template <class A>
    struct is_any_std : std::false_type
    {
    };
    template <class T>
    struct is_any_std<fm::std_allocator<T, fm::any_allocator>> : std::true_type
    {
    };
    template <class Alloc, class Leaf>
    Alloc make_alloc(Leaf& l, unsigned how)
    {
        if constexpr (is_any_std<Alloc>::value)
        {
            if (how % 3 == 2)
            {
                fm::any_allocator_reference ref(l);
                return Alloc(ref.get_allocator()); // ref dies here
            }
        }
        (void)how;
        return Alloc(l);
    }
    template <class C>
    struct is_list : std::false_type
    {
    };
    template <class T, class A>
    struct is_list<std::list<T, A>> : std::true_type
    {
    };

    // C: container over our allocator, R: same container over std::allocator (reference)
    template <class C, class R, class Alloc, class CLeaf = ::CLeaf>
    Verdict run_case(const char* name, const Program& p, CaseInfo& ci, bool any_flavour)
    {
        Fail f;
        f.subject  = name;
        ci.subject = name;
        auto P = [&](size_t i) { return i < p.params.size() ? p.params[i] : 0u; };
        bool allow_known = vf::allow_known("F19");
        g_emptied_handle_used = false;
        CLeaf A(41), B(42);
        auto  bind = [&](unsigned which) -> CLeaf&
        {
            // (recorded finding F19 - type-erased std_allocators on different allocator objects compare
            // equal - is excluded operation by operation below, see f19_guard)
            if (any_flavour && !allow_known && compares_on_move<C>::value)
                return A;
            return which % 2 ? B : A;
        };
        // F19 makes exactly those operations misbehave in which the standard library asks the
        // allocators whether they are equal: copy assignment and allocator-extended move construction
        // between containers on different allocator objects. They are skipped for the type-erased
        // flavour (counted); move assignment, swap and allocator-extended copies do not compare.
        const bool f19_guard = any_flavour && !allow_known;
        constexpr size_t NS = 4;
        std::unique_ptr<C> c[NS];
        std::unique_ptr<R> r[NS];
        int                owner[NS]; // model: which allocator object the container is bound to
        for (size_t i = 0; i < NS; ++i)
        {
            CLeaf& l = bind(P(1) >> i);
            c[i].reset(new C(make_alloc<Alloc>(l, P(3) + unsigned(i))));
            r[i].reset(new R());
            owner[i] = l.owner();
        }
        unsigned n_ins = 0, n_cross = 0;
        auto     same_contents = [&](size_t i, const char* when)
        {
            if (Ops<C>::dump(*c[i]) != Ops<R>::dump(*r[i]))
                f("contents-differ", std::string("container contents differ from the std::allocator reference ") + when);
        };
        auto check_binding = [&](size_t i, const char* when)
        {
            // Which allocator object does the container use *now*? Observed, not modelled (whether
            // assignment and swap propagate the allocator is not part of the property): insert one
            // element and look at the owner of the allocation the leaves logged for it.
            size_t log0 = Slab::get().log().size();
            Ops<C>::ins(*c[i], 4242);
            Ops<R>::ins(*r[i], 4242);
            int observed = 0;
            for (size_t k = log0; k < Slab::get().log().size(); ++k)
            {
                auto& e = Slab::get().log()[k];
                if (e.kind == vf::UpCall::alloc_node || e.kind == vf::UpCall::alloc_array)
                    observed = e.owner;
            }
            if (!observed)
                return; // no allocation needed (spare capacity / small-string buffer)
            owner[i] = observed;
            // equality must say exactly that
            bool eqA = c[i]->get_allocator() == Alloc(A), eqB = c[i]->get_allocator() == Alloc(B);
            if (any_flavour && !allow_known)
                return; // the equality answers of the type-erased flavour are recorded finding F19
            if (eqA != (observed == A.owner()) || eqB != (observed == B.owner()))
                f("equality", std::string("std_allocator equality disagrees with the allocator object the container uses ")
                                  + when);
            // two equal allocators: memory from one may be released through the other
            if (eqA)
            {
                Alloc other(A);
                auto  q = other.allocate(3);
                c[i]->get_allocator().deallocate(q, 3);
            }
        };
        for (auto& op : p.ops)
        {
            if (f.failed)
                break;
            size_t i = op.a % NS, j = (i + 1 + op.b % (NS - 1)) % NS;
            switch (op.kind)
            {
            case K_insert:
            {
                unsigned k = 1 + op.c % 6;
                for (unsigned t = 0; t < k; ++t)
                {
                    Ops<C>::ins(*c[i], int((op.b + t * 7) % 100000));
                    Ops<R>::ins(*r[i], int((op.b + t * 7) % 100000));
                    ++n_ins;
                }
                break;
            }
            case K_erase:
                Ops<C>::del(*c[i], int(op.b % 100000));
                Ops<R>::del(*r[i], int(op.b % 100000));
                break;
            case K_clear:
                c[i]->clear();
                r[i]->clear();
                break;
            case K_copy_construct:
                if (op.c % 2)
                {
                    CLeaf& l = bind(op.c / 2);
                    c[j].reset(new C(*c[i], make_alloc<Alloc>(l, op.b / 8)));
                    owner[j] = l.owner();
                }
                else
                {
                    c[j].reset(new C(*c[i]));
                    owner[j] = owner[i];
                }
                r[j].reset(new R(*r[i]));
                if (owner[i] != owner[j] && !c[i]->empty())
                    ++n_cross;
                break;
            case K_move_construct:
                if (op.c % 2 && f19_guard && bind(op.c / 2).owner() != owner[i])
                {
                    ++ci.counters["excluded_by_known_finding"];
                    ++ci.noops;
                    break;
                }
                if (op.c % 2)
                {
                    CLeaf& l = bind(op.c / 2);
                    c[j].reset(new C(std::move(*c[i]), Alloc(l)));
                    owner[j] = l.owner();
                }
                else
                {
                    c[j].reset(new C(std::move(*c[i])));
                    owner[j] = owner[i];
                }
                r[j].reset(new R(std::move(*r[i])));
                c[i]->clear();
                r[i]->clear();
                break;
            case K_copy_assign:
                if (f19_guard && owner[i] != owner[j])
                {
                    ++ci.counters["excluded_by_known_finding"];
                    ++ci.noops;
                    break;
                }
                if (owner[i] != owner[j] && !c[i]->empty() && !c[j]->empty())
                    ++n_cross;
                *c[j] = *c[i];
                *r[j] = *r[i];
                owner[j] = owner[i]; // std_allocator propagates on copy assignment
                break;
            case K_move_assign:
                // (if move assignment did not propagate the allocator, the standard library would ask
                // the allocators for equality: recorded finding F19 for the type-erased flavour)
                if (f19_guard && owner[i] != owner[j]
                    && !std::allocator_traits<Alloc>::propagate_on_container_move_assignment::value)
                {
                    ++ci.counters["excluded_by_known_finding"];
                    ++ci.noops;
                    break;
                }
                if (owner[i] != owner[j] && !c[i]->empty() && !c[j]->empty())
                    ++n_cross;
                *c[j] = std::move(*c[i]);
                *r[j] = std::move(*r[i]);
                owner[j] = owner[i]; // ... and on move assignment
                c[i]->clear();
                r[i]->clear();
                break;
            case K_swap:
            {
                // swapping containers whose allocators differ and do not propagate on swap is undefined
                // behaviour in the standard library: not generated
                if (owner[i] != owner[j] && !std::allocator_traits<Alloc>::propagate_on_container_swap::value)
                {
                    ++ci.noops;
                    break;
                }
                if (owner[i] != owner[j] && !c[i]->empty() && !c[j]->empty())
                    ++n_cross;
                using std::swap;
                swap(*c[i], *c[j]);
                swap(*r[i], *r[j]);
                std::swap(owner[i], owner[j]); // ... and on swap
                break;
            }
            case K_splice:
                if constexpr (is_list<C>::value)
                {
                    // only between containers whose allocators compare equal (else UB in the standard library)
                    if (owner[i] == owner[j] && c[i]->get_allocator() == c[j]->get_allocator())
                    {
                        c[j]->splice(c[j]->end(), *c[i]);
                        r[j]->splice(r[j]->end(), *r[i]);
                    }
                }
                else
                    ++ci.noops;
                break;
            default:
            {
                CLeaf& l = bind(op.c);
                c[i].reset(new C(make_alloc<Alloc>(l, op.b)));
                r[i].reset(new R());
                owner[i] = l.owner();
            }
            }
            if (Slab::get().last_error())
                f("wrong-allocator", std::string(Slab::get().last_error()) + " (after " + names[op.kind] + ")");
            if (g_emptied_handle_used)
                f("moved-from-allocator-unusable", std::string("a container allocated through an allocator handle that had "
                                                               "been moved away from it (after ") + names[op.kind] + ")");
            if (!f.failed)
            {
                same_contents(i, names[op.kind]);
                same_contents(j, names[op.kind]);
                check_binding(i, names[op.kind]);
                check_binding(j, names[op.kind]);
            }
        }
        if (!f.failed)
        {
            for (size_t i = 0; i < NS; ++i)
                c[i].reset();
            if (Slab::get().last_error())
                f("wrong-allocator", Slab::get().last_error());
            else if (Slab::get().outstanding_of(41) || Slab::get().outstanding_of(42))
                f("unbalanced", "memory still allocated after every container was destroyed");
        }
        else
            for (size_t i = 0; i < NS; ++i)
                (void)c[i].release();
        ci.nontrivial = n_cross >= 1 && n_ins >= 20;
        if (n_cross)
            ci.classes.insert("cross-allocator-transfer");
        if (any_flavour)
            ci.classes.insert("type-erased");
        ci.counters["insertions"] += n_ins;
        ci.counters["cross_allocator_ops"] += n_cross;
        return f.failed ? f.v : Verdict::pass();
    }

    template <class RawOrAny>
    struct Flavour
    {
        template <class T>
        using SA = fm::std_allocator<T, RawOrAny>;
        static Verdict run(unsigned kind, const Program& p, CaseInfo& ci, bool any, const char* tag)
        {
            std::string n;
            switch (kind % 12)
            {
            case 0:
                n = std::string("vector<int>/") + tag;
                return run_case<std::vector<int, SA<int>>, std::vector<int>, SA<int>>(n.c_str(), p, ci, any);
            case 1:
                n = std::string("deque<int>/") + tag;
                return run_case<std::deque<int, SA<int>>, std::deque<int>, SA<int>>(n.c_str(), p, ci, any);
            case 2:
                n = std::string("list<int>/") + tag;
                return run_case<std::list<int, SA<int>>, std::list<int>, SA<int>>(n.c_str(), p, ci, any);
            case 3:
                n = std::string("forward_list<int>/") + tag;
                return run_case<std::forward_list<int, SA<int>>, std::forward_list<int>, SA<int>>(n.c_str(), p, ci, any);
            case 4:
                n = std::string("set<int>/") + tag;
                return run_case<std::set<int, std::less<int>, SA<int>>, std::set<int>, SA<int>>(n.c_str(), p, ci, any);
            case 5:
                n = std::string("multiset<int>/") + tag;
                return run_case<std::multiset<int, std::less<int>, SA<int>>, std::multiset<int>, SA<int>>(n.c_str(), p, ci, any);
            case 6:
            {
                using VT = std::pair<const int, int>;
                n        = std::string("map<int,int>/") + tag;
                return run_case<std::map<int, int, std::less<int>, SA<VT>>, std::map<int, int>, SA<VT>>(n.c_str(), p, ci, any);
            }
            case 7:
            {
                using VT = std::pair<const int, int>;
                n        = std::string("multimap<int,int>/") + tag;
                return run_case<std::multimap<int, int, std::less<int>, SA<VT>>, std::multimap<int, int>, SA<VT>>(n.c_str(), p, ci, any);
            }
            case 8:
                n = std::string("unordered_set<int>/") + tag;
                return run_case<std::unordered_set<int, std::hash<int>, std::equal_to<int>, SA<int>>,
                                std::unordered_set<int>, SA<int>>(n.c_str(), p, ci, any);
            case 9:
            {
                using VT = std::pair<const int, int>;
                n        = std::string("unordered_map<int,int>/") + tag;
                return run_case<std::unordered_map<int, int, std::hash<int>, std::equal_to<int>, SA<VT>>,
                                std::unordered_map<int, int>, SA<VT>>(n.c_str(), p, ci, any);
            }
            case 10:
                n = std::string("unordered_multiset<int>/") + tag;
                return run_case<std::unordered_multiset<int, std::hash<int>, std::equal_to<int>, SA<int>>,
                                std::unordered_multiset<int>, SA<int>>(n.c_str(), p, ci, any);
            default:
                n = std::string("basic_string<char>/") + tag;
                return run_case<std::basic_string<char, std::char_traits<char>, SA<char>>, std::string, SA<char>>(n.c_str(), p, ci, any);
            }
        }
    };

    struct ContTarget : vf::Target
    {
        const char* name() const override
        {
            return "cont";
        }
        bool spec(const std::string& property, Spec& out) const override
        {
            if (property != "C10")
                return false;
            out.nparams = 4;
            out.max_ops = 80;
            out.kinds   = {{names[0], 14}, {names[1], 6}, {names[2], 1}, {names[3], 3}, {names[4], 3},
                           {names[5], 4},  {names[6], 4}, {names[7], 3}, {names[8], 1}, {names[9], 1}};
            out.rule    = ">= 1 copy/move assignment, swap or allocator-extended copy between containers bound to "
                          "different allocator objects while both are non-empty, and >= 20 element insertions";
            return true;
        }
        void init(const std::string&) override
        {
            Slab::get().map();
        }
        Verdict run(const Spec&, const Program& p, CaseInfo& ci) override
        {
            static const size_t gaps[] = {64, 16, 256, 4096};
            auto P = [&](size_t i) { return i < p.params.size() ? p.params[i] : 0u; };
            Slab::get().reset(P(2), gaps[(P(2) / 4) % 4]);
            Slab::get().clear_error();
            unsigned kind = P(0) % 33;
            if (kind >= 29)
            {
                using VT = std::pair<const int, int>;
                switch (kind)
                {
                case 29:
                    return run_case<std::vector<int, fm::std_allocator<int, CHandle>>, std::vector<int>,
                                    fm::std_allocator<int, CHandle>, CHandle>("vector<int>/std_allocator<T,SharedHandle>", p, ci, false);
                case 30:
                    return run_case<std::list<int, fm::std_allocator<int, CHandle>>, std::list<int>,
                                    fm::std_allocator<int, CHandle>, CHandle>("list<int>/std_allocator<T,SharedHandle>", p, ci, false);
                case 31:
                    return run_case<std::map<int, int, std::less<int>, fm::std_allocator<VT, CHandle>>, std::map<int, int>,
                                    fm::std_allocator<VT, CHandle>, CHandle>("map<int,int>/std_allocator<T,SharedHandle>", p, ci, false);
                default:
                    return run_case<std::deque<int, fm::std_allocator<int, CHandle>>, std::deque<int>,
                                    fm::std_allocator<int, CHandle>, CHandle>("deque<int>/std_allocator<T,SharedHandle>", p, ci, false);
                }
            }
            if (kind < 12)
                return Flavour<CLeaf>::run(kind, p, ci, false, "std_allocator<T,CLeaf>");
            if (kind < 24)
                return Flavour<fm::any_allocator>::run(kind - 12, p, ci, true, "any_std_allocator");
            // node-only leaf, element sizes 12 / 20 / 24 bytes
            using E12 = EW<3>;
            using E20 = EW<5>;
            using E24 = EW<6>;
            switch (kind)
            {
            case 24:
                return run_case<std::vector<E12, fm::std_allocator<E12, CMinLeaf>>, std::vector<E12>,
                                fm::std_allocator<E12, CMinLeaf>, CMinLeaf>("vector<E12>/std_allocator<T,MinLeaf>", p, ci, false);
            case 25:
                return run_case<std::deque<E12, fm::std_allocator<E12, CMinLeaf>>, std::deque<E12>,
                                fm::std_allocator<E12, CMinLeaf>, CMinLeaf>("deque<E12>/std_allocator<T,MinLeaf>", p, ci, false);
            case 26:
                return run_case<std::vector<E24, fm::std_allocator<E24, CMinLeaf>>, std::vector<E24>,
                                fm::std_allocator<E24, CMinLeaf>, CMinLeaf>("vector<E24>/std_allocator<T,MinLeaf>", p, ci, false);
            case 27:
                return run_case<std::list<E20, fm::std_allocator<E20, CMinLeaf>>, std::list<E20>,
                                fm::std_allocator<E20, CMinLeaf>, CMinLeaf>("list<E20>/std_allocator<T,MinLeaf>", p, ci, false);
            default:
                return run_case<std::vector<E20, fm::std_allocator<E20, CMinLeaf>>, std::vector<E20>,
                                fm::std_allocator<E20, CMinLeaf>, CMinLeaf>("vector<E20>/std_allocator<T,MinLeaf>", p, ci, false);
            }
        }
    };
} // namespace

vf::Target& vf::the_target()
{
    static ContTarget t;
    return t;
}
