// comp.cpp — compositions of adapters over logging leaf allocators:
//   C08 (b): fallback_allocator routes every deallocation to the sub-allocator that served it
//   C09    : adapters forward each request as one request (>= size, >= alignment) and release it
//            once, to the same leaf, with the same kind/count/size/alignment; trackers see each
//            successful operation exactly once, in the documented order.
// The oracle sits in the leaves: every leaf call goes to the Slab, which validates shape,
// ownership and balance.
#include <memory>
#include <mutex>

#include <foonathan/memory/aligned_allocator.hpp>
#include <foonathan/memory/allocator_storage.hpp>
#include <foonathan/memory/deleter.hpp>
#include <foonathan/memory/fallback_allocator.hpp>
#include <foonathan/memory/memory_pool.hpp>
#include <foonathan/memory/memory_pool_collection.hpp>
#include <foonathan/memory/memory_resource_adapter.hpp>
#include <foonathan/memory/memory_stack.hpp>
#include <foonathan/memory/segregator.hpp>
#include <foonathan/memory/smart_ptr.hpp>
#include <foonathan/memory/std_allocator.hpp>
#include <foonathan/memory/tracking.hpp>

#include "../vf/slab.hpp"
#include "../vf/vf.hpp"

namespace fm = foonathan::memory;
using vf::CaseInfo;
using vf::Op;
using vf::Program;
using vf::Slab;
using vf::Spec;
using vf::Verdict;

namespace
{
    struct leaf_oom : std::bad_alloc
    {
    };

    struct LeafState
    {
        int    owner     = 0;
        size_t cap_bytes = 1 << 20;
        size_t live      = 0;
        size_t max_node  = 1 << 16;
        unsigned calls   = 0;
        bool   shrinking = false; // report the remaining capacity as maximum (like static_allocator,
                                  // iteration_allocator: the maxima move while memory is in use)
    };

    // full-concept composable stateful RawAllocator; distinct types per position
    template <int I>
    class Leaf
    {
    public:
        using is_stateful = std::true_type;
        explicit Leaf(LeafState* s = nullptr) : st(s) {}

        void* allocate_node(std::size_t size, std::size_t align)
        {
            void* p = get(false, 1, size, align);
            if (!p)
                throw leaf_oom();
            return p;
        }
        void* allocate_array(std::size_t count, std::size_t size, std::size_t align)
        {
            void* p = get(true, count, size, align);
            if (!p)
                throw leaf_oom();
            return p;
        }
        void* try_allocate_node(std::size_t size, std::size_t align) noexcept
        {
            return get(false, 1, size, align);
        }
        void* try_allocate_array(std::size_t count, std::size_t size, std::size_t align) noexcept
        {
            return get(true, count, size, align);
        }
        void deallocate_node(void* p, std::size_t size, std::size_t align) noexcept
        {
            put(false, p, 1, size, align);
        }
        void deallocate_array(void* p, std::size_t count, std::size_t size,
                              std::size_t align) noexcept
        {
            put(true, p, count, size, align);
        }
        bool try_deallocate_node(void* p, std::size_t size, std::size_t align) noexcept
        {
            auto b = Slab::get().find_block(p);
            if (!b || b->owner != st->owner)
                return false;
            put(false, p, 1, size, align);
            return true;
        }
        bool try_deallocate_array(void* p, std::size_t count, std::size_t size,
                                  std::size_t align) noexcept
        {
            auto b = Slab::get().find_block(p);
            if (!b || b->owner != st->owner)
                return false;
            put(true, p, count, size, align);
            return true;
        }
        std::size_t max_node_size() const
        {
            return st->shrinking ? st->cap_bytes - st->live : st->max_node;
        }
        std::size_t max_array_size() const
        {
            return st->shrinking ? st->cap_bytes - st->live : st->cap_bytes;
        }
        std::size_t max_alignment() const
        {
            return 4096;
        }
        LeafState* st;

    private:
        void* get(bool array, size_t count, size_t size, size_t align)
        {
            ++st->calls;
            size_t bytes = count * size;
            if (size > st->max_node && !array)
                return nullptr;
            if (st->live + bytes > st->cap_bytes)
                return nullptr;
            st->live += bytes;
            return Slab::get().allocate(st->owner, array, count, size, align);
        }
        void put(bool array, void* p, size_t count, size_t size, size_t align)
        {
            auto b = Slab::get().find_block(p);
            if (b && b->owner == st->owner)
                st->live -= b->bytes;
            Slab::get().deallocate(st->owner, array, p, count, size, align);
        }
    };

    // minimal-concept leaf: only allocate_node/deallocate_node (not composable)
    class MinLeaf
    {
    public:
        using is_stateful = std::true_type;
        explicit MinLeaf(LeafState* s = nullptr) : st(s) {}
        void* allocate_node(std::size_t size, std::size_t align)
        {
            if (st->live + size > st->cap_bytes)
                throw leaf_oom();
            st->live += size;
            return Slab::get().allocate(st->owner, false, 1, size, align);
        }
        void deallocate_node(void* p, std::size_t size, std::size_t align) noexcept
        {
            auto b = Slab::get().find_block(p);
            if (b && b->owner == st->owner)
                st->live -= b->bytes;
            Slab::get().deallocate(st->owner, false, p, 1, size, align);
        }
        LeafState* st;
    };

    // node-only *composable* leaf: arrays reach it through the traits' default fallbacks of both the
    // throwing and the composable interface (one node of count*size bytes each way)
    class MinCompLeaf : public MinLeaf
    {
    public:
        explicit MinCompLeaf(LeafState* s = nullptr) : MinLeaf(s) {}
        void* try_allocate_node(std::size_t size, std::size_t align) noexcept
        {
            ++st->calls;
            if (st->live + size > st->cap_bytes)
                return nullptr;
            st->live += size;
            return Slab::get().allocate(st->owner, false, 1, size, align);
        }
        bool try_deallocate_node(void* p, std::size_t size, std::size_t align) noexcept
        {
            auto b = Slab::get().find_block(p);
            if (!b || b->owner != st->owner)
                return false;
            deallocate_node(p, size, align);
            return true;
        }
    };

    //=== tracker ===//
    struct TrackEvent
    {
        bool     alloc, array;
        void*    p;
        size_t   count, size, align;
        uint64_t seq;
    };
    std::vector<TrackEvent>* g_track;
    struct RecTracker
    {
        void on_node_allocation(void* p, std::size_t s, std::size_t a) noexcept
        {
            g_track->push_back({true, false, p, 1, s, a, Slab::get().next_seq()});
        }
        void on_array_allocation(void* p, std::size_t c, std::size_t s, std::size_t a) noexcept
        {
            g_track->push_back({true, true, p, c, s, a, Slab::get().next_seq()});
        }
        void on_node_deallocation(void* p, std::size_t s, std::size_t a) noexcept
        {
            g_track->push_back({false, false, p, 1, s, a, Slab::get().next_seq()});
        }
        void on_array_deallocation(void* p, std::size_t c, std::size_t s, std::size_t a) noexcept
        {
            g_track->push_back({false, true, p, c, s, a, Slab::get().next_seq()});
        }
    };

    struct Req
    {
        bool   array = false, composable = false;
        size_t count = 1, size = 8, align = 8;
        size_t bytes() const
        {
            return count * size;
        }
    };

    //=== uniform view of a composition ===//
    struct IComp
    {
        std::string name;
        int         depth          = 1;
        bool        has_composable = false, has_tracker = false, is_fallback = false;
        size_t      min_align      = 1;     // aligned_allocator raises alignments to this
        bool        any_erased     = false; // count==1 arrays become nodes (documented dispatch)
        int         tracker_leaf   = -1;    // >= 0: the tracker wraps only this leaf (sees only its operations)
        size_t      thresholds[2]  = {0, 0};
        virtual ~IComp() {}
        virtual void* alloc(const Req&)                = 0;
        virtual void* try_alloc(const Req&)            = 0;
        virtual void  dealloc(void*, const Req&)       = 0;
        virtual bool  try_dealloc(void*, const Req&)   = 0;
    };

    template <class A, bool Composable = fm::is_composable_allocator<A>::value>
    struct CompOf : IComp
    {
        A a;
        template <typename... Args>
        explicit CompOf(const char* n, int d, Args&&... args) : a(static_cast<Args&&>(args)...)
        {
            name           = n;
            depth          = d;
            has_composable = Composable;
        }
        using T = fm::allocator_traits<A>;
        void* alloc(const Req& r) override
        {
            return r.array ? T::allocate_array(a, r.count, r.size, r.align) :
                             T::allocate_node(a, r.size, r.align);
        }
        void dealloc(void* p, const Req& r) override
        {
            if (r.array)
                T::deallocate_array(a, p, r.count, r.size, r.align);
            else
                T::deallocate_node(a, p, r.size, r.align);
        }
        void* try_alloc(const Req& r) override
        {
            if constexpr (Composable)
            {
                using CT = fm::composable_allocator_traits<A>;
                return r.array ? CT::try_allocate_array(a, r.count, r.size, r.align) :
                                 CT::try_allocate_node(a, r.size, r.align);
            }
            else
                return nullptr;
        }
        bool try_dealloc(void* p, const Req& r) override
        {
            if constexpr (Composable)
            {
                using CT = fm::composable_allocator_traits<A>;
                return r.array ? CT::try_deallocate_array(a, p, r.count, r.size, r.align) :
                                 CT::try_deallocate_node(a, p, r.size, r.align);
            }
            else
                return false;
        }
    };

    // memory_resource round trip: memory_resource_allocator -> memory_resource_adapter<Leaf>
    struct ResourceComp : IComp
    {
        fm::memory_resource_adapter<Leaf<0>> adapter;
        fm::memory_resource_allocator        alloc_;
        explicit ResourceComp(LeafState* l) : adapter(Leaf<0>(l)), alloc_(&adapter)
        {
            name  = "memory_resource_allocator->memory_resource_adapter<L0>";
            depth = 2;
        }
        using T = fm::allocator_traits<fm::memory_resource_allocator>;
        void* alloc(const Req& r) override
        {
            return r.array ? T::allocate_array(alloc_, r.count, r.size, r.align) :
                             T::allocate_node(alloc_, r.size, r.align);
        }
        void dealloc(void* p, const Req& r) override
        {
            if (r.array)
                T::deallocate_array(alloc_, p, r.count, r.size, r.align);
            else
                T::deallocate_node(alloc_, p, r.size, r.align);
        }
        void* try_alloc(const Req&) override
        {
            return nullptr;
        }
        bool try_dealloc(void*, const Req&) override
        {
            return false;
        }
    };

    // typed helpers: std_allocator / allocate_unique / allocate_shared over a leaf
    template <size_t S, size_t A>
    struct alignas(A) Obj
    {
        unsigned char b[S];
    };
    struct Base
    {
        virtual ~Base() {}
        int x = 1;
    };
    struct Derived : Base
    {
        char big[300];
    };
    struct alignas(64) AlignedDerived : Base
    {
        char more[100]; // alignof(AlignedDerived) != alignof(Base)
    };
    struct BigDerived : Base
    {
        char big[70000]; // sizeof > 65535
    };

    // element type whose k-th construction throws: the helpers' failure paths must release what
    // they allocated with the parameters of the allocation
    struct thrower_fail
    {
    };
    int g_throw_at = 0, g_made = 0;
    template <size_t S, size_t A>
    struct alignas(A) Thrower
    {
        unsigned char b[S];
        Thrower()
        {
            if (++g_made == g_throw_at)
                throw thrower_fail{};
        }
        explicit Thrower(int)
        {
            if (++g_made == g_throw_at)
                throw thrower_fail{};
        }
    };

    using L0  = Leaf<0>;
    using L1  = Leaf<1>;
    using L2  = Leaf<2>;
    using FB01 = fm::fallback_allocator<L0, L1>;

    struct Env
    {
        LeafState leaves[4];
    };

    std::unique_ptr<IComp> make_comp(unsigned idx, Env& e, const Program& p)
    {
        auto P = [&](size_t i) { return i < p.params.size() ? p.params[i] : 0u; };
        auto l = [&](int i) { return &e.leaves[i]; };
        static const size_t thr[] = {8, 16, 17, 64, 100, 256, 1000, 4096};
        size_t t0 = thr[P(3) % 8], t1 = thr[(P(3) / 8) % 8];
        if (t1 <= t0)
            t1 = t0 * 4;
        size_t mina = size_t(1) << (P(4) % 7); // 1..64
        // aligned_allocator requires min_alignment <= max_alignment() of the wrapped allocator;
        // MinLeaf and binary_segregator report the traits default (alignof(max_align_t))
        size_t mina16 = mina > alignof(std::max_align_t) ? alignof(std::max_align_t) : mina;
        std::unique_ptr<IComp> c;
        switch (idx % 24)
        {
        case 0:
            c.reset(new CompOf<FB01>("fallback<L0,L1>", 1, L0(l(0)), L1(l(1))));
            c->is_fallback = true;
            break;
        case 1:
            c.reset(new CompOf<fm::fallback_allocator<FB01, L2>>("fallback<fallback<L0,L1>,L2>", 2,
                                                                 FB01(L0(l(0)), L1(l(1))), L2(l(2))));
            c->is_fallback = true;
            break;
        case 2:
            c.reset(new CompOf<fm::fallback_allocator<L0, fm::fallback_allocator<L1, L2>>>(
                "fallback<L0,fallback<L1,L2>>", 2, L0(l(0)),
                fm::fallback_allocator<L1, L2>(L1(l(1)), L2(l(2)))));
            c->is_fallback = true;
            break;
        case 3:
            c.reset(new CompOf<fm::aligned_allocator<L0>>("aligned<L0>", 1, mina, L0(l(0))));
            c->min_align = mina;
            break;
        case 4:
            c.reset(new CompOf<fm::tracked_allocator<RecTracker, L0>>("tracked<L0>", 1, RecTracker{},
                                                                    L0(l(0))));
            c->has_tracker = true;
            break;
        case 5:
        {
            using A = fm::fallback_allocator<fm::aligned_allocator<L0>,
                                             fm::tracked_allocator<RecTracker, L1>>;
            c.reset(new CompOf<A>("fallback<aligned<L0>,tracked<L1>>", 2,
                                  fm::aligned_allocator<L0>(mina, L0(l(0))),
                                  fm::tracked_allocator<RecTracker, L1>(RecTracker{}, L1(l(1)))));
            c->is_fallback = true;
            break;
        }
        case 6:
        {
            using A = fm::binary_segregator<fm::threshold_segregatable<L0>, L1>;
            c.reset(new CompOf<A>("segregator<threshold<L0>,L1>", 1,
                                  fm::threshold_segregatable<L0>(t0, L0(l(0))), L1(l(1))));
            c->thresholds[0] = t0;
            break;
        }
        case 7:
        {
            using A = fm::segregator<fm::threshold_segregatable<L0>, fm::threshold_segregatable<L1>, L2>;
            c.reset(new CompOf<A>("segregator<threshold<L0>,threshold<L1>,L2>", 2,
                                  fm::make_segregator(fm::threshold(t0, L0(l(0))),
                                                      fm::threshold(t1, L1(l(1))), L2(l(2)))));
            c->thresholds[0] = t0;
            c->thresholds[1] = t1;
            break;
        }
        case 8:
            c.reset(new CompOf<fm::allocator_adapter<L0>>("allocator_adapter<L0>", 1, L0(l(0))));
            break;
        case 9:
        {
            static L0 ref(nullptr);
            ref = L0(l(0));
            c.reset(new CompOf<fm::allocator_reference<L0>>("allocator_reference<L0>", 1, ref));
            break;
        }
        case 10:
        {
            static L0 ref(nullptr);
            ref = L0(l(0));
            c.reset(new CompOf<fm::any_allocator_reference>("any_allocator_reference(L0)", 1, ref));
            c->any_erased = true;
            break;
        }
        case 11:
            c.reset(new CompOf<fm::thread_safe_allocator<L0, std::mutex>>("thread_safe<L0>", 1,
                                                                        L0(l(0))));
            break;
        case 12:
        {
            using A = fm::tracked_allocator<RecTracker, FB01>;
            c.reset(new CompOf<A>("tracked<fallback<L0,L1>>", 2, RecTracker{},
                                  FB01(L0(l(0)), L1(l(1)))));
            c->has_tracker = true;
            c->is_fallback = true;
            break;
        }
        case 13:
        {
            using A = fm::tracked_allocator<RecTracker, fm::aligned_allocator<FB01>>;
            c.reset(new CompOf<A>("tracked<aligned<fallback<L0,L1>>>", 3, RecTracker{},
                                  fm::aligned_allocator<FB01>(mina, FB01(L0(l(0)), L1(l(1))))));
            c->has_tracker = true;
            c->is_fallback = true;
            c->min_align   = mina;
            break;
        }
        case 14:
        {
            using S = fm::binary_segregator<fm::threshold_segregatable<L0>, L1>;
            using A = fm::aligned_allocator<S>;
            c.reset(new CompOf<A>("aligned<segregator<threshold<L0>,L1>>", 2, mina16,
                                  S(fm::threshold_segregatable<L0>(t0, L0(l(0))), L1(l(1)))));
            c->min_align     = mina16;
            c->thresholds[0] = t0;
            break;
        }
        case 15:
            c.reset(new ResourceComp(l(0)));
            break;
        case 16:
        {
            using A = fm::allocator_adapter<fm::tracked_allocator<RecTracker, fm::aligned_allocator<L0>>>;
            c.reset(new CompOf<A>("adapter<tracked<aligned<L0>>>", 3,
                                  fm::tracked_allocator<RecTracker, fm::aligned_allocator<L0>>(
                                      RecTracker{}, fm::aligned_allocator<L0>(mina, L0(l(0))))));
            c->has_tracker = true;
            c->min_align   = mina;
            break;
        }
        case 17:
            c.reset(new CompOf<fm::aligned_allocator<MinLeaf>>("aligned<MinLeaf>", 1, mina16,
                                                                MinLeaf(l(0))));
            c->min_align = mina16;
            break;
        case 18:
        {
            using A = fm::binary_segregator<fm::threshold_segregatable<MinLeaf>, L1>;
            c.reset(new CompOf<A>("segregator<threshold<MinLeaf>,L1>", 1,
                                  fm::threshold_segregatable<MinLeaf>(t0, MinLeaf(l(0))), L1(l(1))));
            c->thresholds[0] = t0;
            break;
        }
        case 22:
        {
            using A = fm::fallback_allocator<MinCompLeaf, L1>;
            c.reset(new CompOf<A>("fallback<MinComp,L1>", 1, MinCompLeaf(l(0)), L1(l(1))));
            c->is_fallback = true;
            break;
        }
        case 23:
            c.reset(new CompOf<fm::aligned_allocator<MinCompLeaf>>("aligned<MinComp>", 1, mina16,
                                                                    MinCompLeaf(l(0))));
            c->min_align = mina16;
            break;
        case 20:
        {
            // the tracked allocator is the *default* of a fallback: it is asked to take back blocks
            // the fallback served and must not tell its tracker about the ones it refuses
            using A = fm::fallback_allocator<fm::tracked_allocator<RecTracker, L0>, L1>;
            c.reset(new CompOf<A>("fallback<tracked<L0>,L1>", 2,
                                  fm::tracked_allocator<RecTracker, L0>(RecTracker{}, L0(l(0))), L1(l(1))));
            c->has_tracker  = true;
            c->is_fallback  = true;
            c->tracker_leaf = 0;
            break;
        }
        case 21:
        {
            using A = fm::fallback_allocator<fm::aligned_allocator<fm::tracked_allocator<RecTracker, L0>>,
                                             fm::fallback_allocator<L1, L2>>;
            c.reset(new CompOf<A>("fallback<aligned<tracked<L0>>,fallback<L1,L2>>", 3,
                                  fm::aligned_allocator<fm::tracked_allocator<RecTracker, L0>>(
                                      mina, fm::tracked_allocator<RecTracker, L0>(RecTracker{}, L0(l(0)))),
                                  fm::fallback_allocator<L1, L2>(L1(l(1)), L2(l(2)))));
            c->has_tracker  = true;
            c->is_fallback  = true;
            c->tracker_leaf = 0;
            c->min_align    = 1; // only the default branch raises alignments
            break;
        }
        default:
        {
            using S = fm::thread_safe_allocator<fm::tracked_allocator<RecTracker, FB01>, std::mutex>;
            c.reset(new CompOf<S>("thread_safe<tracked<fallback<L0,L1>>>", 3,
                                  fm::tracked_allocator<RecTracker, FB01>(RecTracker{},
                                                                          FB01(L0(l(0)), L1(l(1))))));
            c->has_tracker = true;
            c->is_fallback = true;
        }
        }
        return c;
    }

    enum
    {
        K_alloc_node,
        K_alloc_array,
        K_try_alloc_node,
        K_try_alloc_array,
        K_dealloc,
        K_typed,
        K_deep,
        K__count
    };
    const char* names[K__count] = {"alloc_node", "alloc_array", "try_alloc_node", "try_alloc_array",
                                   "dealloc", "typed", "deep"};

    // tracker of the deep-tracking histories: node/array events and block growth/shrinking
    struct DeepEv
    {
        enum Kind
        {
            node_alloc,
            array_alloc,
            node_dealloc,
            array_dealloc,
            growth,
            shrink
        } kind;
        void*  p;
        size_t count, size, align;
    };
    struct DeepTracker
    {
        std::vector<DeepEv>* ev;
        void on_node_allocation(void* p, std::size_t s, std::size_t a) noexcept
        {
            ev->push_back({DeepEv::node_alloc, p, 1, s, a});
        }
        void on_array_allocation(void* p, std::size_t c, std::size_t s, std::size_t a) noexcept
        {
            ev->push_back({DeepEv::array_alloc, p, c, s, a});
        }
        void on_node_deallocation(void* p, std::size_t s, std::size_t a) noexcept
        {
            ev->push_back({DeepEv::node_dealloc, p, 1, s, a});
        }
        void on_array_deallocation(void* p, std::size_t c, std::size_t s, std::size_t a) noexcept
        {
            ev->push_back({DeepEv::array_dealloc, p, c, s, a});
        }
        void on_allocator_growth(void* p, std::size_t s) noexcept
        {
            ev->push_back({DeepEv::growth, p, 1, s, 0});
        }
        void on_allocator_shrinking(void* p, std::size_t s) noexcept
        {
            ev->push_back({DeepEv::shrink, p, 1, s, 0});
        }
    };

    struct LiveA
    {
        void*  p;
        Req    r;
        int    leaf_owner;
        size_t leaf_bytes;
    };

    struct Runner
    {
        const std::string prop;
        const Program&    prog;
        CaseInfo&         ci;
        Env               env;
        std::unique_ptr<IComp> c;
        std::vector<LiveA>      lives;
        std::vector<TrackEvent> track;
        Verdict                 verdict;
        bool                    failed = false;
        unsigned n_array2 = 0, n_below = 0, n_above = 0, n_default_full = 0, n_default_again = 0,
                 n_ok = 0, n_rel = 0, n_typed = 0, n_typed_throw = 0;
        bool     default_was_full = false;

        Runner(const std::string& p, const Program& pr, CaseInfo& c_) : prop(p), prog(pr), ci(c_) {}
        uint32_t P(size_t i) const
        {
            return i < prog.params.size() ? prog.params[i] : 0;
        }
        void fail(const std::string& oracle, const std::string& msg)
        {
            if (failed)
                return;
            failed  = true;
            verdict = Verdict::fail(prop + "|" + (c ? c->name : "?") + "|" + oracle, msg);
        }

        Req make_req(const Op& op, bool array, bool composable)
        {
            static const size_t sizes[] = {1, 2, 3, 7, 8, 9, 15, 16, 17, 24, 32, 63, 64, 65, 100, 255, 256,
                                           257, 999, 1000, 1001, 4095, 4096, 4097, 20000, 65535, 65536,
                                           70000, 200000};
            static const size_t counts[] = {1, 2, 3, 1, 5, 8, 16, 100};
            Req r;
            r.array      = array;
            r.composable = composable && c->has_composable;
            r.size       = sizes[op.a % 29];
            // both sides of every threshold
            if (op.a % 5 == 4 && c->thresholds[0])
            {
                size_t t = c->thresholds[(op.a / 5) % 2] ? c->thresholds[(op.a / 5) % 2] : c->thresholds[0];
                r.size   = t + (op.a / 10) % 3 - 1;
                if (!r.size)
                    r.size = 1;
            }
            // both sides of the wrapped allocator's max_node_size (memory_resource_adapter decides
            // node versus array with it)
            if (op.a % 7 == 6 && env.leaves[0].max_node < (size_t(1) << 20))
            {
                size_t m = env.leaves[0].max_node;
                static const long delta[] = {-1, 0, 1};
                r.size = m * (1 + (op.a / 7) % 2) + size_t(delta[(op.a / 14) % 3]);
            }
            r.count = array ? counts[op.c % 8] : 1;
            r.align = size_t(1) << (op.b % 7);
            if (array && r.count * r.size > 400000)
                r.count = 1 + 400000 / r.size / 2;
            return r;
        }

        // the oracle around one user-level request
        void do_alloc(const Req& r)
        {
            auto&    slab = Slab::get();
            size_t   log0 = slab.log().size(), tr0 = track.size();
            void*    p    = nullptr;
            bool     threw = false;
            unsigned l0calls = env.leaves[0].calls;
            try
            {
                p = r.composable ? c->try_alloc(r) : c->alloc(r);
            }
            catch (std::bad_alloc&)
            {
                threw = true;
            }
            // events the leaves saw
            std::vector<vf::UpCall> ev(slab.log().begin() + long(log0), slab.log().end());
            unsigned allocs = 0, deallocs = 0;
            vf::UpCall a{};
            for (auto& e : ev)
            {
                if (e.kind == vf::UpCall::alloc_node || e.kind == vf::UpCall::alloc_array)
                {
                    ++allocs;
                    a = e;
                }
                else
                    ++deallocs;
            }
            if (!p)
            {
                if (!threw && !r.composable)
                    fail("null-return", "throwing allocation returned nullptr");
                if (allocs != 0 || deallocs != 0)
                    fail("failed-request-leaked", "a failed request left " + std::to_string(allocs)
                                                      + " leaf allocation(s) behind");
                if (track.size() != tr0)
                    fail("tracker-on-failure", "tracker was told about an allocation that failed");
                if (c->is_fallback && env.leaves[0].calls != l0calls)
                {
                    default_was_full = true;
                    ++n_default_full;
                }
                return;
            }
            if (allocs != 1 || deallocs != 0)
            {
                fail("not-one-request", "a user request reached the leaves as " + std::to_string(allocs)
                                            + " allocation(s) and " + std::to_string(deallocs)
                                            + " deallocation(s)");
                return;
            }
            size_t leaf_bytes = a.count * a.size;
            bool   leaf_array = a.kind == vf::UpCall::alloc_array;
            if (leaf_bytes < r.bytes())
                fail("too-small", "leaf request of " + std::to_string(leaf_bytes) + " bytes for a user request of "
                                      + std::to_string(r.bytes()));
            if (a.align < r.align || a.align < c->min_align)
                fail("under-aligned", "leaf request with alignment " + std::to_string(a.align)
                                          + " for a user request with " + std::to_string(r.align)
                                          + " (minimum alignment of the adapter " + std::to_string(c->min_align) + ")");
            if (static_cast<char*>(p) < a.addr || static_cast<char*>(p) + r.bytes() > a.addr + leaf_bytes)
                fail("outside-leaf-block", "returned memory is not inside the leaf allocation made for it");
            (void)leaf_array;
            // which leaf? (fallback: the default must be asked first; it serves if it can)
            if (c->is_fallback && a.owner != env.leaves[0].owner)
            {
                default_was_full = true;
                ++n_default_full;
            }
            if (c->is_fallback && a.owner == env.leaves[0].owner && default_was_full)
            {
                ++n_default_again;
                default_was_full = false;
            }
            if (c->thresholds[0])
            {
                // (which allocator a segregator picks is not part of the property; only that the
                // release goes where the allocation went — the leaves check that)
                size_t key = r.array ? r.bytes() : r.size;
                (key <= c->thresholds[0] ? n_below : n_above)++;
            }
            bool tracked_here = c->has_tracker
                                && (c->tracker_leaf < 0 || a.owner == env.leaves[c->tracker_leaf].owner);
            if (c->has_tracker && !tracked_here && track.size() != tr0)
                fail("tracker-foreign", "tracker was told about an allocation its allocator did not serve");
            if (tracked_here)
            {
                if (track.size() != tr0 + 1)
                    fail("tracker-count", "tracker saw " + std::to_string(track.size() - tr0)
                                              + " events for one successful allocation");
                else
                {
                    auto& t = track.back();
                    if (!t.alloc || t.p != p || (c->tracker_leaf < 0 && (t.size != r.size || (r.array && (!t.array || t.count != r.count)))))
                        fail("tracker-args", "tracker allocation event does not carry the user-level parameters");
                    if (t.seq < a.seq)
                        fail("tracker-order", "allocation tracked before the forwarded call returned");
                }
            }
            if (failed)
                return;
            std::memset(p, 0xA5, r.bytes());
            lives.push_back({p, r, a.owner, leaf_bytes});
            ++n_ok;
            if (r.array && r.count >= 2)
                ++n_array2;
        }

        void do_dealloc(size_t idx)
        {
            LiveA  l   = lives[idx];
            auto&  slab = Slab::get();
            size_t log0 = slab.log().size(), tr0 = track.size();
            bool   ok   = true;
            if (l.r.composable)
                ok = c->try_dealloc(l.p, l.r);
            else
                c->dealloc(l.p, l.r);
            lives.erase(lives.begin() + long(idx));
            if (!ok)
            {
                fail("own-rejected", "try_deallocate returned false for memory this allocator handed out");
                return;
            }
            std::vector<vf::UpCall> ev(slab.log().begin() + long(log0), slab.log().end());
            unsigned deallocs = 0, allocs = 0;
            vf::UpCall d{};
            for (auto& e : ev)
            {
                if (e.kind == vf::UpCall::dealloc_node || e.kind == vf::UpCall::dealloc_array)
                {
                    ++deallocs;
                    d = e;
                }
                else
                    ++allocs;
            }
            if (slab.last_error())
            {
                fail("leaf-mismatch", std::string(slab.last_error()) + " (user request "
                                          + (l.r.array ? "array " : "node ") + std::to_string(l.r.count) + "x"
                                          + std::to_string(l.r.size) + " align " + std::to_string(l.r.align) + ")");
                return;
            }
            if (deallocs != 1 || allocs != 0)
            {
                fail("not-one-release", "a release reached the leaves as " + std::to_string(deallocs)
                                            + " deallocation(s)");
                return;
            }
            if (d.owner != l.leaf_owner)
                fail("wrong-leaf", "memory was released to a different leaf than the one that served it");
            bool tracked_here = c->has_tracker
                                && (c->tracker_leaf < 0 || l.leaf_owner == env.leaves[c->tracker_leaf].owner);
            if (c->has_tracker && !tracked_here && track.size() != tr0)
                fail("tracker-foreign", "tracker was told about the release of memory its allocator did not serve");
            if (tracked_here)
            {
                if (track.size() != tr0 + 1)
                    fail("tracker-count", "tracker saw " + std::to_string(track.size() - tr0)
                                              + " events for one release");
                else
                {
                    auto& t = track.back();
                    if (t.alloc || t.p != l.p || (c->tracker_leaf < 0 && t.size != l.r.size))
                        fail("tracker-args", "tracker deallocation event does not carry the user-level parameters");
                    // (documented order: before the forwarded call for the throwing interface, after a
                    // successful try_; a tracker below a fallback is reached through the try_ path)
                    if (!l.r.composable && c->tracker_leaf < 0 && t.seq > d.seq)
                        fail("tracker-order", "deallocation tracked after the forwarded call");
                }
            }
            ++n_rel;
        }

        // typed helpers on plain leaves (std_allocator, deleters, smart pointers)
        template <class T>
        void typed_one(unsigned how, size_t n)
        {
            auto&     slab = Slab::get();
            LeafState& ls  = env.leaves[3];
            Leaf<3>    leaf(&ls);
            size_t     log0 = slab.log().size();
            auto check = [&](bool array, size_t count, const char* what)
            {
                std::vector<vf::UpCall> ev(slab.log().begin() + long(log0), slab.log().end());
                if (slab.last_error())
                {
                    fail(std::string("typed-") + what, slab.last_error());
                    return;
                }
                if (ev.size() != 2)
                {
                    fail(std::string("typed-") + what, "expected one allocation and one release, saw "
                                                           + std::to_string(ev.size()) + " leaf calls");
                    return;
                }
                auto& a = ev[0];
                if (a.count * a.size < count * sizeof(T) || a.align < alignof(T))
                    fail(std::string("typed-") + what, "leaf request smaller or less aligned than the object needs");
                (void)array;
            };
            switch (how % 5)
            {
            case 0:
            {
                fm::std_allocator<T, Leaf<3>> sa(leaf);
                T* p = sa.allocate(n);
                std::memset(static_cast<void*>(p), 0, n * sizeof(T));
                sa.deallocate(p, n);
                check(n != 1, n, "std_allocator");
                break;
            }
            case 1:
            {
                {
                    auto up = fm::allocate_unique<T>(leaf);
                    (void)up;
                }
                check(false, 1, "allocate_unique");
                break;
            }
            case 2:
            {
                {
                    auto up = fm::allocate_unique<T[]>(leaf, n);
                    (void)up;
                }
                check(true, n, "allocate_unique_array");
                break;
            }
            case 3:
            {
                {
                    auto sp = fm::allocate_shared<T>(leaf);
                    (void)sp;
                }
                // allocate_shared allocates control block + object in one request
                std::vector<vf::UpCall> ev(slab.log().begin() + long(log0), slab.log().end());
                if (slab.last_error())
                    fail("typed-allocate_shared", slab.last_error());
                else if (ev.size() != 2 || ev[0].count * ev[0].size < sizeof(T))
                    fail("typed-allocate_shared", "expected one allocation (>= sizeof(T)) and one release");
                break;
            }
            default:
            {
                fm::any_std_allocator<T> sa(leaf);
                T* p = sa.allocate(n);
                sa.deallocate(p, n);
                check(n != 1, n, "any_std_allocator");
            }
            }
            if (ls.live != 0 && !failed)
                fail("typed-balance", "typed helper left memory outstanding");
            ++n_typed;
        }
        // a constructor failure inside a smart-pointer helper: one allocation, one release of the
        // same shape (validated by the slab), nothing outstanding, the exception arrives
        template <class T>
        void typed_throw(unsigned how, size_t n, unsigned k)
        {
            auto&      slab = Slab::get();
            LeafState& ls   = env.leaves[3];
            Leaf<3>    leaf(&ls);
            size_t     log0 = slab.log().size();
            const char* what = "";
            bool        threw = false;
            g_made            = 0;
            try
            {
                switch (how % 4)
                {
                case 0:
                    what       = "allocate_unique";
                    g_throw_at = 1;
                    (void)fm::allocate_unique<T>(leaf, 1);
                    break;
                case 1:
                    what       = "allocate_unique_array";
                    g_throw_at = int(1 + k % n);
                    (void)fm::allocate_unique<T[]>(leaf, n);
                    break;
                case 2:
                    what       = "allocate_shared";
                    g_throw_at = 1;
                    (void)fm::allocate_shared<T>(leaf, 1);
                    break;
                default:
                    what       = "allocate_unique(any_allocator)";
                    g_throw_at = 1;
                    (void)fm::allocate_unique<T>(fm::any_allocator{}, leaf, 1);
                }
            }
            catch (thrower_fail&)
            {
                threw = true;
            }
            g_throw_at = 0;
            std::string tag = std::string("typed-throw-") + what;
            if (!threw)
                fail(tag, "the constructor's exception did not arrive");
            else if (slab.last_error())
                fail(tag, slab.last_error());
            else if (slab.log().size() != log0 + 2)
                fail(tag, "expected one allocation and one release after the constructor failure, saw "
                              + std::to_string(slab.log().size() - log0) + " leaf calls");
            else if (ls.live != 0)
                fail(tag, "memory left outstanding after the constructor failure");
            ++n_typed;
            ++n_typed_throw;
        }
        // array helpers over a node-only leaf (traits' default array fallbacks), lengths 0..5
        void typed_min(unsigned how, size_t n)
        {
            auto&      slab = Slab::get();
            LeafState& ls   = env.leaves[3];
            MinLeaf    leaf(&ls);
            size_t     log0 = slab.log().size();
            using T         = Obj<24, 8>;
            const char* what = how % 2 ? "allocate_unique_array/node-only" : "std_allocator/node-only";
            if (how % 2)
            {
                auto up = fm::allocate_unique<T[]>(leaf, n);
                (void)up;
            }
            else
            {
                fm::std_allocator<T, MinLeaf> sa(leaf);
                T* p = sa.allocate(n);
                sa.deallocate(p, n);
            }
            std::string tag = std::string("typed-") + what;
            if (slab.last_error())
                fail(tag, std::string(slab.last_error()) + " (array of " + std::to_string(n) + " elements)");
            else if (slab.log().size() != log0 + 2)
                fail(tag, "expected one allocation and one release");
            else if (slab.log()[log0].count * slab.log()[log0].size < n * sizeof(T))
                fail(tag, "leaf request smaller than the array");
            else if (ls.live != 0)
                fail(tag, "memory left outstanding");
            ++n_typed;
        }
        void op_typed(const Op& op)
        {
            size_t n = 1 + op.c % 5;
            if (op.a % 14 == 13)
            {
                typed_min(op.b, op.c % 6);
                return;
            }
            if (op.a % 13 >= 9)
            {
                switch (op.a % 13)
                {
                case 9:
                    typed_throw<Thrower<1, 1>>(op.b, n, op.c / 5);
                    break;
                case 10:
                    typed_throw<Thrower<24, 8>>(op.b, n, op.c / 5);
                    break;
                case 11:
                    typed_throw<Thrower<100, 4>>(op.b, n, op.c / 5);
                    break;
                default:
                    typed_throw<Thrower<4096, 64>>(op.b, n, op.c / 5);
                }
                return;
            }
            switch (op.a % 13)
            {
            case 0:
                typed_one<Obj<1, 1>>(op.b, n);
                break;
            case 1:
                typed_one<Obj<3, 1>>(op.b, n);
                break;
            case 2:
                typed_one<Obj<8, 8>>(op.b, n);
                break;
            case 3:
                typed_one<Obj<24, 4>>(op.b, n);
                break;
            case 4:
                typed_one<Obj<4096, 64>>(op.b, n);
                break;
            case 5:
                typed_one<Obj<65535, 1>>(op.b, n);
                break;
            case 6:
                typed_one<Obj<65536, 16>>(op.b, n);
                break;
            case 7:
                typed_one<Obj<70000, 8>>(op.b, n);
                break;
            default:
            {
                // polymorphic base/derived pair through unique_base_ptr
                auto&      slab = Slab::get();
                LeafState& ls   = env.leaves[3];
                Leaf<3>    leaf(&ls);
                size_t     log0 = slab.log().size();
                const char* tag = "typed-unique_base_ptr";
                if (vf::allow_known("F7") && op.b % 2)
                {
                    tag = "typed-unique_base_ptr>65535"; // the only signature the recorded finding F7 covers
                    // recorded finding F7 (probe only): allocator_polymorphic_deleter keeps the
                    // size of the derived type in an unsigned short
                    fm::unique_base_ptr<Base, Leaf<3>> bp = fm::allocate_unique<BigDerived>(leaf);
                    (void)bp;
                }
                else if (op.b % 4 >= 2)
                {
                    // the derived type is more strictly aligned than the base: the release has to
                    // carry the derived type's alignment
                    fm::unique_base_ptr<Base, Leaf<3>> bp = fm::allocate_unique<AlignedDerived>(leaf);
                    (void)bp;
                }
                else
                {
                    fm::unique_base_ptr<Base, Leaf<3>> bp = fm::allocate_unique<Derived>(leaf);
                    (void)bp;
                }
                if (slab.last_error())
                    fail(tag, slab.last_error());
                else if (slab.log().size() != log0 + 2)
                    fail(tag, "expected one allocation and one release");
                ++n_typed;
            }
            }
        }


        //=== deep tracking: tracked_block_allocator / deeply_tracked_allocator over a leaf ===//
        // one self-contained history per op; the tracker must see every traits-level operation once,
        // with the pointer and parameters of the call, and every block the arena takes from / returns
        // to the leaf (deeply tracked: between the end of construction and the start of destruction,
        // as documented) with the address and size of the leaf call
        unsigned n_deep = 0, n_deep_growth = 0, n_deep_shrink = 0;
        template <class A, bool Deep, int Shape /*0 pool, 1 collection, 2 stack*/, class Make>
        void deep_history(const char* tag, const Op& op, size_t node, Make make)
        {
            auto&               slab = Slab::get();
            std::vector<DeepEv> ev, want;
            DeepTracker         tr{&ev};
            size_t              log_begin = slab.log().size();
            std::unique_ptr<A>  a(make(tr));
            size_t              log_ctor = slab.log().size();
            using T = fm::allocator_traits<A>;
            struct L
            {
                void*  p;
                size_t count, size, align;
            };
            std::vector<L> live;
            unsigned       steps = 4 + op.b % 150;
            uint32_t       x     = op.c * 2654435761u + op.a * 40503u + 1;
            for (unsigned i = 0; i < steps; ++i)
            {
                x          = x * 1664525u + 1013904223u;
                unsigned r = (x >> 16) % 16;
                if (i == steps / 2 && (op.a / 8) % 2)
                {
                    std::unique_ptr<A> b(new A(std::move(*a)));
                    a = std::move(b); // the moved-from object dies here
                    continue;
                }
                if (r < 10 || live.empty())
                {
                    L l;
                    l.count = r % 3 == 0 ? 2 + (x >> 8) % 3 : 1;
                    if (Shape == 0)
                    {
                        l.size  = node;
                        l.align = 8;
                    }
                    else if (Shape == 1)
                    {
                        l.size  = 1 + (x >> 10) % node;
                        l.align = 1;
                    }
                    else
                    {
                        l.size  = 1 + (x >> 10) % 200;
                        l.align = size_t(1) << ((x >> 5) % 5);
                    }
                    try
                    {
                        if (l.count > 1)
                        {
                            l.p = T::allocate_array(*a, l.count, l.size, l.align);
                            want.push_back({DeepEv::array_alloc, l.p, l.count, l.size, l.align});
                        }
                        else
                        {
                            l.p = T::allocate_node(*a, l.size, l.align);
                            want.push_back({DeepEv::node_alloc, l.p, 1, l.size, l.align});
                        }
                        live.push_back(l);
                    }
                    catch (std::bad_alloc&)
                    {
                    }
                }
                else
                {
                    size_t k = Shape == 2 ? live.size() - 1 : (x >> 8) % live.size();
                    L      l = live[k];
                    live.erase(live.begin() + long(k));
                    if (l.count > 1)
                    {
                        T::deallocate_array(*a, l.p, l.count, l.size, l.align);
                        want.push_back({DeepEv::array_dealloc, l.p, l.count, l.size, l.align});
                    }
                    else
                    {
                        T::deallocate_node(*a, l.p, l.size, l.align);
                        want.push_back({DeepEv::node_dealloc, l.p, 1, l.size, l.align});
                    }
                }
            }
            while (!live.empty())
            {
                L l = live.back();
                live.pop_back();
                if (l.count > 1)
                {
                    T::deallocate_array(*a, l.p, l.count, l.size, l.align);
                    want.push_back({DeepEv::array_dealloc, l.p, l.count, l.size, l.align});
                }
                else
                {
                    T::deallocate_node(*a, l.p, l.size, l.align);
                    want.push_back({DeepEv::node_dealloc, l.p, 1, l.size, l.align});
                }
            }
            if constexpr (Shape == 2)
            {
                // blocks acquired inside a raii scope go to the cache when it ends and back to the leaf
                // with shrink_to_fit(), all while the tracker is attached
                auto& st = a->get_allocator();
                {
                    fm::memory_stack_raii_unwind<typename A::allocator_type> u(st);
                    for (unsigned k = 0; k < 2 + op.c % 4; ++k)
                        try
                        {
                            void* p = T::allocate_node(*a, 150 + 10 * k, 8);
                            want.push_back({DeepEv::node_alloc, p, 1, 150 + 10 * k, 8});
                        }
                        catch (std::bad_alloc&)
                        {
                        }
                }
                if (op.a % 3)
                    st.shrink_to_fit();
            }
            size_t log_pre_dtor = slab.log().size();
            a.reset();
            size_t log_end = slab.log().size();
            // block events from the leaf's call log
            std::vector<DeepEv> blocks_want, blocks_got, user_got;
            for (size_t i = Deep ? log_ctor : log_begin; i < (Deep ? log_pre_dtor : log_end); ++i)
            {
                auto& e = slab.log()[i];
                if (e.owner != env.leaves[3].owner)
                    continue;
                bool al = e.kind == vf::UpCall::alloc_node || e.kind == vf::UpCall::alloc_array;
                blocks_want.push_back({al ? DeepEv::growth : DeepEv::shrink, e.addr, 1, e.count * e.size, 0});
            }
            for (auto& e : ev)
                (e.kind >= DeepEv::growth ? blocks_got : user_got).push_back(e);
            auto same = [](const std::vector<DeepEv>& g, const std::vector<DeepEv>& w, std::string& why) {
                for (size_t i = 0; i < g.size() && i < w.size(); ++i)
                    if (g[i].kind != w[i].kind || g[i].p != w[i].p || g[i].count != w[i].count
                        || g[i].size != w[i].size || g[i].align != w[i].align)
                    {
                        why = "event " + std::to_string(i) + ": got kind " + std::to_string(g[i].kind) + " size "
                              + std::to_string(g[i].size) + " count " + std::to_string(g[i].count) + " align "
                              + std::to_string(g[i].align) + ", expected kind " + std::to_string(w[i].kind)
                              + " size " + std::to_string(w[i].size) + " count " + std::to_string(w[i].count)
                              + " align " + std::to_string(w[i].align)
                              + (g[i].p != w[i].p ? " (different address)" : "");
                        return false;
                    }
                if (g.size() != w.size())
                {
                    why = std::to_string(g.size()) + " events, expected " + std::to_string(w.size());
                    return false;
                }
                return true;
            };
            std::string why;
            if (slab.last_error())
                fail(std::string(tag) + "-leaf", slab.last_error());
            else if (!same(user_got, want, why))
                fail(std::string(tag) + "-user-events", why);
            else if (!same(blocks_got, blocks_want, why))
                fail(std::string(tag) + "-block-events", why);
            ++n_deep;
            for (auto& e : blocks_want)
                (e.kind == DeepEv::growth ? n_deep_growth : n_deep_shrink) += 1;
        }

        void op_deep(const Op& op)
        {
            using L3 = Leaf<3>;
            using GB = fm::growing_block_allocator<L3>;
            LeafState*          l3      = &env.leaves[3];
            static const size_t nodes[] = {8, 16, 24, 40, 64};
            size_t              node    = nodes[(op.a / 16) % 5];
            size_t              nblk    = 8 + (op.a / 80) % 9;
            switch (op.a % 8)
            {
            case 0:
            case 1:
            {
                using P = fm::memory_pool<fm::node_pool, GB>;
                using A = fm::deeply_tracked_allocator<DeepTracker, P>;
                deep_history<A, true, 0>("deep-pool", op, node, [&](DeepTracker tr) {
                    return new A(fm::make_deeply_tracked_allocator<P>(tr, node, P::min_block_size(node, nblk),
                                                                       L3(l3)));
                });
                break;
            }
            case 2:
            {
                using P = fm::memory_pool_collection<fm::node_pool, fm::log2_buckets, GB>;
                using A = fm::deeply_tracked_allocator<DeepTracker, P>;
                deep_history<A, true, 1>("deep-collection", op, 64, [&](DeepTracker tr) {
                    return new A(fm::make_deeply_tracked_allocator<P>(tr, size_t(64), size_t(1024 + 64 * nblk),
                                                                       L3(l3)));
                });
                break;
            }
            case 3:
            case 4:
            {
                using A = fm::deeply_tracked_allocator<DeepTracker, fm::memory_stack<GB>>;
                deep_history<A, true, 2>("deep-stack", op, 0, [&](DeepTracker tr) {
                    return new A(tr, typename A::allocator_type(size_t(128 + 32 * nblk), L3(l3)));
                });
                break;
            }
            case 5:
            {
                using B = fm::tracked_block_allocator<DeepTracker, GB>;
                using P = fm::memory_pool<fm::node_pool, B>;
                using A = fm::tracked_allocator<DeepTracker, P>;
                deep_history<A, false, 0>("tracked-block-pool", op, node, [&](DeepTracker tr) {
                    return new A(tr, P(node, P::min_block_size(node, nblk), tr, L3(l3)));
                });
                break;
            }
            case 6:
            {
                // a RawAllocator in the place of the block allocator: make_block_allocator_t
                using B = fm::tracked_block_allocator<DeepTracker, L3>;
                using S = fm::memory_stack<B>;
                using A = fm::tracked_allocator<DeepTracker, S>;
                deep_history<A, false, 2>("tracked-block-stack", op, 0, [&](DeepTracker tr) {
                    return new A(tr, S(size_t(128 + 32 * nblk), tr, L3(l3)));
                });
                break;
            }
            default:
            {
                using B = fm::tracked_block_allocator<DeepTracker, GB>;
                using P = fm::memory_pool_collection<fm::node_pool, fm::identity_buckets, B>;
                using A = fm::tracked_allocator<DeepTracker, P>;
                deep_history<A, false, 1>("tracked-block-collection", op, 32, [&](DeepTracker tr) {
                    return new A(tr, P(size_t(32), size_t(2048 + 64 * nblk), tr, L3(l3)));
                });
            }
            }
        }

        Verdict run()
        {
            static const size_t gaps[] = {64, 16, 256, 4096};
            auto& slab = Slab::get();
            slab.reset(P(1), gaps[P(2) % 4]);
            slab.clear_error();
            g_track = &track;
            // leaves: the default (leaf 0) is small enough to run full inside a history
            static const size_t caps[] = {64, 200, 1000, 5000, 100000, 1 << 20};
            for (int i = 0; i < 4; ++i)
            {
                env.leaves[i].owner     = 10 + i;
                env.leaves[i].cap_bytes = i == 0 ? caps[P(5) % 6] : (i == 1 ? caps[2 + P(6) % 4] : size_t(1) << 22);
                env.leaves[i].max_node  = size_t(1) << 22;
            }
            if (prop == "C09")
                env.leaves[0].cap_bytes = P(5) % 3 ? size_t(1) << 22 : caps[P(5) % 6];
            env.leaves[3].cap_bytes = size_t(1) << 24;
            if (P(7) % 3 == 1 && P(0) % 24 != 15)
            {
                // the maxima of the leaves move with use (documented for static_allocator,
                // iteration_allocator, memory_stack). Recorded finding F16: memory_resource_adapter
                // re-derives node/array from the *current* max_node_size() on release - excluded here
                for (int i = 0; i < 3; ++i)
                    env.leaves[i].shrinking = true;
                ci.classes.insert("moving-maxima");
            }
            if (vf::allow_known("F16") && P(0) % 24 == 15)
                env.leaves[0].shrinking = true; // probe program of F16 only
            if (P(0) % 24 == 15 && vf::allow_known("F16"))
                env.leaves[0].cap_bytes = 30000;
            else if (P(0) % 24 == 15)
            {
                // memory_resource_adapter: a small max_node_size so that requests straddle it
                static const size_t mx[] = {64, 100, 256, 1000, size_t(1) << 22};
                env.leaves[0].max_node  = mx[P(6) % 5];
                env.leaves[0].cap_bytes = size_t(1) << 22;
            }
            c          = make_comp(P(0), env, prog);
            ci.subject = c->name;
            for (auto& op : prog.ops)
            {
                if (failed)
                    break;
                switch (op.kind)
                {
                case K_alloc_node:
                    do_alloc(make_req(op, false, false));
                    break;
                case K_alloc_array:
                    do_alloc(make_req(op, true, false));
                    break;
                case K_try_alloc_node:
                    do_alloc(make_req(op, false, true));
                    break;
                case K_try_alloc_array:
                    do_alloc(make_req(op, true, true));
                    break;
                case K_dealloc:
                    if (lives.empty())
                        ++ci.noops;
                    else
                        do_dealloc(op.b % 3 == 0 ? lives.size() - 1 : op.a % lives.size());
                    break;
                case K_typed:
                    if (prop == "C09")
                        op_typed(op);
                    else
                        ++ci.noops;
                    break;
                case K_deep:
                    if (prop == "C09")
                        op_deep(op);
                    else
                        ++ci.noops;
                    break;
                default:
                    ++ci.noops;
                }
                if (!failed && slab.last_error())
                    fail("leaf-mismatch", slab.last_error());
            }
            while (!failed && !lives.empty())
                do_dealloc(lives.size() - 1);
            if (!failed)
            {
                c.reset();
                size_t left = 0;
                for (auto& b : slab.outstanding())
                    left += b.owner >= 10 && b.owner < 14;
                if (left)
                    fail("leaf-balance", std::to_string(left) + " leaf allocation(s) never released");
            }
            else
                (void)c.release();
            if (prop == "C08")
                ci.nontrivial = n_default_full >= 1 && n_default_again >= 1 && n_rel >= 2;
            else
                ci.nontrivial = (c ? false : true)
                                && ((n_array2 >= 1 && n_ok >= 3 && (n_below == 0 || n_above >= 1)) || n_typed >= 1 || (n_deep >= 1 && n_deep_growth >= 1));
            if (n_default_full)
                ci.classes.insert("default-ran-full");
            if (n_default_again)
                ci.classes.insert("default-served-again");
            if (n_array2)
                ci.classes.insert("array>=2");
            if (n_below && n_above)
                ci.classes.insert("both-sides-of-threshold");
            if (n_typed)
                ci.classes.insert("typed-helper");
            if (n_typed_throw)
                ci.classes.insert("typed-helper-constructor-failure");
            if (n_deep)
                ci.classes.insert("deep-tracking");
            if (n_deep_growth)
                ci.classes.insert("deep-tracking-growth");
            if (n_deep_shrink)
                ci.classes.insert("deep-tracking-shrinking");
            ci.counters["deep_histories"] += n_deep;
            ci.counters["requests_ok"] += n_ok;
            ci.counters["releases"] += n_rel;
            ci.counters["typed"] += n_typed;
            return failed ? verdict : Verdict::pass();
        }
    };

    struct CompTarget : vf::Target
    {
        const char* name() const override
        {
            return "comp";
        }
        bool spec(const std::string& property, Spec& out) const override
        {
            if (property != "C08" && property != "C09")
                return false;
            out.nparams = 8;
            out.max_ops = 80;
            bool c9     = property == "C09";
            out.kinds   = {{names[0], 8}, {names[1], 5}, {names[2], 6}, {names[3], 4}, {names[4], 10},
                           {names[5], c9 ? 4u : 0u}, {names[6], c9 ? 2u : 0u}};
            out.rule = c9 ? "a composition of depth >= 1 served >= 3 requests incl. an array with count >= 2 (and, for "
                            "segregators, a request above the threshold), or a typed helper (std_allocator / "
                            "allocate_unique / allocate_shared / unique_base_ptr) round trip, or a deep-tracking history "
                            "(tracked_block_allocator / deeply_tracked_allocator) in which the arena grew" :
                            "the default allocator of a fallback composition ran full at least once, served again "
                            "later, and >= 2 releases were routed";
            return true;
        }
        void init(const std::string&) override
        {
            Slab::get().map();
        }
        Verdict run(const Spec& spec, const Program& p, CaseInfo& ci) override
        {
            Program q = p;
            if (spec.property == "C08" && !q.params.empty())
            {
                // only the fallback compositions
                static const unsigned fb[] = {0, 1, 2, 5, 12, 13, 19, 20, 21};
                q.params[0] = fb[q.params[0] % 9];
            }
            Runner r(spec.property, q, ci);
            return r.run();
        }
    };
} // namespace

vf::Target& vf::the_target()
{
    static CompTarget t;
    return t;
}
