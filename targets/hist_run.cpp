// hist_run.cpp — interpreter + oracles of the allocator-history target (C01–C07, C12, C15, C18,
// fill part of C17, "valid => no report" part of C16).  See DESIGN.md §5.
#include <algorithm>
#include <map>
#include <set>
#include <atomic>
#include <thread>

#include <signal.h>
#include <sys/wait.h>
#include <unistd.h>

#include <foonathan/memory/heap_allocator.hpp>
#include <foonathan/memory/malloc_allocator.hpp>
#include <foonathan/memory/memory_arena.hpp>
#include <foonathan/memory/memory_pool.hpp>
#include <foonathan/memory/new_allocator.hpp>
#include <foonathan/memory/memory_stack.hpp>
#include <foonathan/memory/static_allocator.hpp>
#include <foonathan/memory/virtual_memory.hpp>

#include "hist.hpp"

#ifdef VF_ASAN
#include <sanitizer/asan_interface.h>
#endif

namespace hist
{
    std::vector<Entry>& registry()
    {
        static std::vector<Entry> r;
        return r;
    }
} // namespace hist

using namespace hist;
using vf::CaseInfo;
using vf::Op;
using vf::Program;
using vf::Spec;
using vf::Verdict;

namespace
{
    //=== handler capture ===//
    struct Handlers
    {
        unsigned    leak = 0, invalid = 0, overflow = 0, oom = 0, badsize = 0;
        std::string leak_name, oom_name, bad_name;
        std::ptrdiff_t leak_amount = 0;
        const void*    leak_alloc  = nullptr;
        size_t         oom_amount = 0, bad_passed = 0, bad_supported = 0;
        const void *   oom_alloc = nullptr, *bad_alloc = nullptr;
        std::vector<std::pair<const void*, std::ptrdiff_t>> leaks;
    };
    // never destroyed: the library may call the leak handler during static destruction
    Handlers& H = *new Handlers;

    void h_leak(const fm::allocator_info& i, std::ptrdiff_t amount)
    {
        ++H.leak;
        H.leak_name   = i.name;
        H.leak_amount = amount;
        H.leak_alloc  = i.allocator;
        H.leaks.emplace_back(i.allocator, amount);
    }
    void h_invalid(const fm::allocator_info&, const void*)
    {
        ++H.invalid;
    }
    void h_overflow(const void*, std::size_t, const void*)
    {
        ++H.overflow;
    }
    void h_oom(const fm::allocator_info& i, std::size_t amount)
    {
        ++H.oom;
        H.oom_name   = i.name;
        H.oom_amount = amount;
        H.oom_alloc  = i.allocator;
    }
    void h_bad(const fm::allocator_info& i, std::size_t passed, std::size_t supported)
    {
        ++H.badsize;
        H.bad_name      = i.name;
        H.bad_passed    = passed;
        H.bad_supported = supported;
        H.bad_alloc     = i.allocator;
    }
    void install_handlers()
    {
        H = Handlers{};
        fm::set_leak_handler(h_leak);
        fm::set_invalid_pointer_handler(h_invalid);
        fm::set_buffer_overflow_handler(h_overflow);
        fm::out_of_memory::set_handler(h_oom);
        fm::bad_allocation_size::set_handler(h_bad);
    }

    //=== oracle selection ===//
    enum : uint32_t
    {
        O_CORE     = 1u << 0,  // non-null, disjoint, contained, pattern intact (C01)
        O_ALIGN    = 1u << 1,  // C02
        O_FAIL     = 1u << 2,  // C03
        O_CONSERVE = 1u << 3,  // C04
        O_UPSTREAM = 1u << 4,  // C05
        O_UNWIND   = 1u << 5,  // C06
        O_ITER     = 1u << 6,  // C07
        O_MOVE     = 1u << 7,  // C12 (core + upstream across moves, moved-from harmless)
        O_LEAK     = 1u << 8,  // C15
        O_NOREPORT = 1u << 9,  // C16 (no false invalid-pointer reports)
        O_FILL     = 1u << 10, // C17 fill patterns
        O_CAPS     = 1u << 11, // C18
        O_BADREL   = 1u << 12, // C16: covered invalid releases are reported (forked child)
        O_SIBLING  = 1u << 13, // C08: composable deallocation recognises exactly its own memory
    };

    // op kinds (index = kind id). Order is part of the replay format only through names.
    enum Kind : uint32_t
    {
        K_alloc_node,
        K_alloc_array,
        K_try_alloc_node,
        K_try_alloc_array,
        K_dealloc,
        K_oversize,
        K_marker,
        K_unwind,
        K_next_iteration,
        K_shrink,
        K_reserve,
        K_move_ctor,
        K_move_assign,
        K_swap,
        K_zombie,
        K_sweep,
        K_cycle,
        K_drain,
        K_fill_block,
        K_exhaust,
        K_probe,
        K_arm_fault,
        K_replay_unwind,
        K_bad_release,
        K_sib_alloc,
        K_sib_dealloc,
        K_probe_foreign,
        K_min_block,
        K_ll_exit,
        K_blocksrc,
        K__count
    };
    const char* kind_names[K__count] = {"alloc_node", "alloc_array", "try_alloc_node",
                                        "try_alloc_array", "dealloc", "oversize", "marker",
                                        "unwind", "next_iteration", "shrink_to_fit", "reserve",
                                        "move_ctor", "move_assign", "swap", "zombie", "sweep",
                                        "cycle", "drain", "fill_block", "exhaust", "probe",
                                        "arm_fault", "replay_unwind", "bad_release", "sib_alloc",
                                        "sib_dealloc", "probe_foreign", "min_block", "ll_exit",
                                        "blocksrc"};

    struct Mode
    {
        const char* prop;
        uint32_t    oracles;
        unsigned    families; // bitmask of Family
        unsigned    w[K__count];
        unsigned    max_ops;
        bool        faults; // program param 7 arms an upstream fault
        const char* rule;
    };
#define FB(f) (1u << (f))
    const unsigned ALL_FAM = FB(F_POOL) | FB(F_COLL) | FB(F_STACK) | FB(F_ITER) | FB(F_STATIC)
                             | FB(F_LOWLEVEL) | FB(F_TEMP);
    // weights:                an  aa tn ta de ov mk uw ni sh rs mc ma sw zo sp cy dr fb ex pr af ru
    const Mode modes[] = {
        {"C01", O_CORE | O_NOREPORT | O_FILL, ALL_FAM,
         {30, 12, 6, 4, 30, 1, 4, 4, 4, 2, 2, 2, 2, 1, 2, 3, 1, 1, 2, 1, 0, 0, 1, 0, 0, 0, 0, 0, 0}, 200, false,
         "history with >=8 successful allocations, >=1 release between two allocations, and one of: "
         "upstream growth inside the history / array and node live together / >=2 buckets of a "
         "collection used / a move with live allocations"},
        {"C02", O_CORE | O_ALIGN, ALL_FAM,
         {30, 20, 6, 6, 20, 0, 3, 3, 3, 1, 2, 1, 1, 0, 0, 3, 0, 1, 4, 0, 0, 0, 1, 0, 0, 0, 0, 0, 0}, 200, false,
         "case with a successful request that has alignment>=8, or an array with count>=2, or sits in "
         "a position class (first in a fresh block / fills block / after growth / after unwind)"},
        {"C03", O_CORE | O_FAIL | O_NOREPORT, ALL_FAM,
         {20, 8, 8, 6, 16, 14, 2, 2, 3, 1, 1, 1, 1, 0, 0, 2, 0, 1, 3, 6, 0, 6, 0, 0, 0, 0, 0, 0, 0, 3}, 160, true,
         ">=1 failed request (oversize / exhaustion / injected upstream fault) followed by >=1 "
         "successful allocation and >=1 release of memory allocated before the failure"},
        {"C04", O_CORE | O_CONSERVE | O_NOREPORT, FB(F_POOL) | FB(F_COLL),
         {30, 16, 4, 4, 30, 0, 0, 0, 0, 0, 3, 1, 1, 0, 0, 2, 8, 6, 0, 0, 0, 0, 0, 0, 0, 0, 0, 0, 0}, 200, false,
         "segment with >=1 array whose byte count is not a multiple of the node size, or >=6 releases "
         "in an order different from allocation order and its reverse, or a cycle with k>=3"},
        {"C05", O_CORE | O_UPSTREAM | O_NOREPORT, FB(F_POOL) | FB(F_COLL) | FB(F_STACK) | FB(F_ITER),
         {30, 10, 4, 2, 20, 0, 6, 8, 3, 6, 2, 3, 3, 2, 3, 1, 0, 2, 4, 2, 0, 4, 0, 0, 0, 0, 0, 0, 0, 2}, 200, true,
         ">=3 upstream blocks acquired and one of: a shrink_to_fit with cached blocks / a move or swap "
         "with >=2 blocks / an injected failure at k>=2 / destruction with live allocations"},
        {"C06", O_CORE | O_UNWIND | O_NOREPORT, FB(F_STACK),
         {40, 10, 6, 2, 4, 0, 14, 10, 0, 4, 0, 1, 1, 0, 0, 3, 0, 0, 4, 0, 0, 0, 8, 0, 0, 0, 0, 0, 0}, 200, false,
         "an unwind that drops >=1 block with >=2 nested markers alive and a replay of >=3 requests"},
        {"C07", O_CORE | O_ITER, FB(F_ITER),
         {40, 10, 10, 4, 4, 0, 0, 0, 16, 0, 0, 2, 2, 0, 1, 4, 0, 0, 4, 2, 3, 0, 0, 0, 0, 0, 0, 0, 0}, 200, false,
         ">=N+1 next_iteration calls with allocations of >=2 iterations alive at once (N>=2), or a "
         "block size with size mod N != 0"},
        {"C12", O_CORE | O_UPSTREAM | O_MOVE | O_NOREPORT, FB(F_POOL) | FB(F_COLL) | FB(F_STACK) | FB(F_ITER),
         {30, 10, 4, 2, 20, 0, 3, 3, 3, 2, 2, 8, 8, 5, 6, 3, 0, 1, 2, 3, 0, 0, 0, 0, 0, 0, 0, 0, 0}, 160, false,
         "a move/move-assignment/swap with >=3 live allocations (>=2 blocks for growing subjects), "
         "followed by >=2 more operations on the new owner, moved-from object destroyed"},
        {"C15", O_CORE | O_LEAK, FB(F_POOL) | FB(F_COLL) | FB(F_STACK),
         {30, 16, 4, 4, 24, 0, 2, 2, 0, 1, 1, 5, 5, 2, 3, 1, 0, 1, 0, 0, 0, 0, 0, 0, 0, 0, 0, 0, 3}, 120, false,
         "net != 0 at destruction after >=1 move, or >=1 array with element size != node size, or a low-level "
         "allocator history in a child process whose exit report is compared with its net"},
        {"C16", O_CORE | O_NOREPORT | O_BADREL, FB(F_POOL) | FB(F_COLL) | FB(F_STACK),
         {30, 10, 4, 2, 40, 0, 4, 6, 0, 2, 1, 1, 1, 0, 0, 2, 0, 4, 0, 0, 0, 0, 0, 10, 0, 0, 0, 0, 0}, 200, false,
         "valid prefix with >=6 releases in non-monotonic address order (no report may fire) followed by a "
         "covered invalid release executed in a forked child, or such a valid history without a bad call"},
        {"C17", O_CORE | O_FILL, ALL_FAM,
         {30, 12, 6, 4, 30, 0, 3, 3, 3, 1, 1, 1, 1, 0, 0, 3, 0, 2, 2, 0, 0, 0, 0, 0, 0, 0, 0, 0, 0}, 160, false,
         "fill-enabled case with >=4 fresh allocations checked for the new-memory pattern and >=2 "
         "releases to a pool checked for the freed-memory pattern"},
        {"C18", O_CORE | O_CAPS, FB(F_POOL) | FB(F_COLL) | FB(F_STACK) | FB(F_ITER) | FB(F_STATIC) | FB(F_LOWLEVEL),
         {30, 14, 6, 4, 24, 6, 3, 3, 3, 1, 4, 1, 1, 0, 0, 1, 0, 1, 3, 1, 10, 3, 0, 0, 0, 0, 0, 12, 0}, 160, true,
         "history with >=1 array and >=1 upstream growth whose counter deltas were all checked, or a "
         ">=1 successful capacity probe, or a min_block_size check with n > 255 or a node size that is not a "
         "multiple of 8"},
        {"C08", O_CORE | O_SIBLING, FB(F_POOL) | FB(F_COLL) | FB(F_STACK) | FB(F_ITER),
         {20, 8, 16, 8, 24, 0, 2, 2, 2, 1, 1, 1, 1, 0, 0, 2, 0, 1, 2, 3, 0, 0, 0, 0, 24, 10, 30, 0, 0}, 160, false,
         "two sibling allocators on one slab with >=1 foreign-pointer probe answered while both hold live "
         "allocations, and the probing allocator was full (a try_ allocation failed) at least once or "
         "the blocks of the siblings are adjacent (zero gap)"},
    };

    const Mode* find_mode(const std::string& prop)
    {
        for (auto& m : modes)
            if (prop == m.prop)
                return &m;
        return nullptr;
    }

    //=== model ===//
    struct Live
    {
        uint32_t id;
        char*    p;
        size_t   bytes;
        Req      req;
        uint64_t seq;        // allocation sequence number
        uint64_t iter_born;  // iteration counter at birth (F_ITER)
        bool     user_released = false; // released by the user but memory not returned (stacks)
    };

    inline unsigned char pat(uint32_t id, size_t off)
    {
        return static_cast<unsigned char>((id * 131u + off * 7u + 0x31u) | 1u);
    }

    struct MarkerRec
    {
        int                 idx;     // subject marker index
        uint64_t            seq;     // allocations with seq > this are above the marker
        uint64_t            gen = 0; // state generation (any attempt/unwind/shrink bumps it)
        std::vector<size_t> caps;    // capacity figures when taken
        std::vector<Req>    replay;  // requests made directly after the marker (first segment)
        std::vector<char*>  replay_addr;
        bool                recording = true;
        uint64_t            up_calls_at = 0;
        bool                shrunk_since = false;
    };

    size_t ref_alignment_for(size_t size)
    {
        size_t a = 1;
        while (a < 16 && size % (a * 2) == 0)
            a *= 2;
        return a;
    }

    struct Runner
    {
        const Mode&                mode;
        const Program&             prog;
        CaseInfo&                  ci;
        Ctx                        ctx;
        std::unique_ptr<ISubject>  s;
        std::vector<Live>          lives;
        std::unique_ptr<ISubject>  s2;     // C08: sibling allocator on the same slab
        std::vector<Live>          lives2; // ... and its live allocations
        std::map<uintptr_t, size_t> by_addr; // start -> bytes (live ranges)
        std::vector<MarkerRec>     markers;
        uint32_t                   next_id = 1;
        uint64_t                   seq = 0, iter = 0, gen = 0;
        Verdict                    verdict;
        bool                       failed = false;
        // counters for non-trivial rules
        unsigned n_alloc_ok = 0, n_release = 0, n_interleaved = 0, n_growth = 0, n_moves = 0,
                 n_moves_live3 = 0, n_fail = 0, n_alloc_after_fail = 0, n_release_old_after_fail = 0,
                 n_arrays = 0, n_arrays_odd = 0, n_cycle3 = 0, n_ops_after_move = 0,
                 n_align8 = 0, n_position = 0, n_next_iter = 0, n_fill_new = 0, n_fill_free = 0,
                 n_probe_ok = 0, n_caps_checked = 0, n_unwind_blocks = 0, n_replayed = 0,
                 n_shrink_cached = 0, n_inj_fail = 0, n_nonmono_rel = 0, n_zombie_destroyed = 0,
                 n_moves_2blocks = 0, n_destroy_live = 0, n_walks = 0;
        bool     last_was_release = false, saw_release_before_alloc = false;
        std::set<size_t> buckets_used;
        bool     array_and_node_live = false;
        uint64_t fail_seq = 0; // seq at first failure
        char*    last_released_addr = nullptr;
        int      rel_dir = 0;
        unsigned dir_changes = 0;
        bool     iter_two_alive = false;
        size_t   iterN = 0;
        std::vector<std::pair<uintptr_t, uintptr_t>> iter_hull; // per cur_iteration value
        std::vector<size_t> iter_fullcap;
        std::ptrdiff_t model_net = 0; // C15: traits-level net bytes
        bool     moved_since_start = false;
        size_t   blocks_peak = 0;

        bool trace = std::getenv("VF_TRACE") != nullptr;

        Runner(const Mode& m, const Program& p, CaseInfo& c) : mode(m), prog(p), ci(c) {}

        bool has(uint32_t o) const
        {
            return (mode.oracles & o) != 0;
        }
        void fail(const std::string& oracle, const std::string& msg)
        {
            if (failed)
                return;
            failed  = true;
            verdict = Verdict::fail(std::string(mode.prop) + "|" + (s ? s->name : "?") + "|" + oracle,
                                    msg);
        }
        uint32_t P(size_t i) const
        {
            return i < prog.params.size() ? prog.params[i] : 0;
        }

        //--- helpers ---//
        uint64_t up_calls() const
        {
            return Slab::get().alloc_calls();
        }
        size_t own_blocks() const
        {
            size_t n = 0;
            for (auto& b : Slab::get().outstanding())
                n += b.owner < static_owner_offset;
            return n;
        }

        bool contained(const char* p, size_t n) const
        {
            if (s->fam == F_LOWLEVEL || s->fam == F_TEMP)
            {
#ifdef VF_ASAN
                return __asan_region_is_poisoned(const_cast<char*>(p), n) == nullptr;
#else
                return true;
#endif
            }
            // owned memory: any outstanding block of any owner of this case (owners are the
            // lineage of this single subject and its fresh targets) incl. static storage
            return Slab::get().in_outstanding(-1, p, n);
        }

        void check_pattern(const Live& l, const char* when)
        {
            if (l.user_released)
                return;
            auto* b = reinterpret_cast<unsigned char*>(l.p);
            for (size_t i = 0; i < l.bytes; ++i)
                if (b[i] != pat(l.id, i))
                {
                    fail("pattern", std::string("live allocation #") + std::to_string(l.id) + " ("
                                        + std::to_string(l.bytes) + " bytes) was modified at offset "
                                        + std::to_string(i) + " " + when);
                    return;
                }
        }
        void sweep(const char* when)
        {
            for (auto& l : lives)
            {
                check_pattern(l, when);
                if (failed)
                    return;
            }
            for (auto& l : lives2)
            {
                check_pattern(l, when);
                if (failed)
                    return;
            }
        }

        // registers a successful allocation, running the C01/C02/C17 oracles
        void on_alloc(void* vp, const Req& r, bool via_try)
        {
            char* p = static_cast<char*>(vp);
            size_t n = r.bytes();
            ++n_alloc_ok;
            if (fail_seq)
                ++n_alloc_after_fail;
            if (last_was_release)
                ++n_interleaved;
            last_was_release = false;
            if (r.array)
            {
                ++n_arrays;
                size_t ns = s->node_size_of(r.size);
                if (ns && n % ns != 0)
                    ++n_arrays_odd;
                if (r.count >= 2)
                    ++n_position; // C02: array with count >= 2
            }
            if (r.align >= 8)
                ++n_align8;
            if (s->fam == F_COLL)
                buckets_used.insert(s->node_size_of(r.size));
            (void)via_try;
            // alignment (C02) — always part of the model's sanity; attributed by mode
            if (reinterpret_cast<uintptr_t>(p) % r.align != 0)
            {
                fail("alignment", "request align=" + std::to_string(r.align) + " got address "
                                      + std::to_string(reinterpret_cast<uintptr_t>(p)));
                return;
            }
            if (has(O_ALIGN) && (s->fam == F_POOL))
            {
                size_t na = ref_alignment_for(s->node_size_of(r.size));
                if (reinterpret_cast<uintptr_t>(p) % na != 0)
                {
                    fail("node-alignment", "pool node not aligned for its node size");
                    return;
                }
            }
            if (!contained(p, n))
            {
                fail("containment", "allocation of " + std::to_string(n)
                                        + " bytes lies outside memory the allocator owns");
                return;
            }
            // disjointness
            auto it = by_addr.upper_bound(reinterpret_cast<uintptr_t>(p));
            if (it != by_addr.begin())
            {
                auto pr = std::prev(it);
                if (pr->first + pr->second > reinterpret_cast<uintptr_t>(p))
                {
                    fail("overlap", "new allocation overlaps a live allocation (starts inside it)");
                    return;
                }
            }
            if (it != by_addr.end() && reinterpret_cast<uintptr_t>(p) + n > it->first)
            {
                fail("overlap", "new allocation overlaps a live allocation (runs into it)");
                return;
            }
            // new-memory pattern (C17)
            if (fill_on && has(O_FILL))
            {
                auto* b = reinterpret_cast<unsigned char*>(p);
                for (size_t i = 0; i < n; ++i)
                    if (b[i] != 0xCD)
                    {
                        fail("fill-new", "fresh allocation does not carry the new-memory pattern at offset "
                                             + std::to_string(i));
                        return;
                    }
                ++n_fill_new;
            }
            if (!freed.empty())
                for (size_t i = freed.size(); i-- > 0;)
                    if (freed[i].p < p + n && p < freed[i].p + freed[i].req.bytes())
                        freed.erase(freed.begin() + long(i));
            Live l;
            l.id        = next_id++;
            l.p         = p;
            l.bytes     = n;
            l.req       = r;
            l.seq       = ++seq;
            l.iter_born = iter;
            auto* b     = reinterpret_cast<unsigned char*>(p);
            for (size_t i = 0; i < n; ++i)
                b[i] = pat(l.id, i);
            // array and node live together?
            for (auto& o : lives)
                if (o.req.array != r.array)
                    array_and_node_live = true;
            if (s->fam == F_ITER)
                for (auto& o : lives)
                    if (o.iter_born != iter)
                        iter_two_alive = true;
            lives.push_back(l);
            by_addr[reinterpret_cast<uintptr_t>(p)] = n;
            if (r.iface == TRAITS)
                model_net += std::ptrdiff_t(n);
            // marker replay recording
            for (auto& m : markers)
                if (m.recording && m.replay.size() < 12)
                {
                    m.replay.push_back(r);
                    m.replay_addr.push_back(p);
                }
        }

        void forget(size_t idx)
        {
            by_addr.erase(reinterpret_cast<uintptr_t>(lives[idx].p));
            lives.erase(lives.begin() + long(idx));
        }

        // model-side release of everything with seq > s (stack unwind) — verifies patterns first
        void release_above(uint64_t sq)
        {
            for (size_t i = lives.size(); i-- > 0;)
                if (lives[i].seq > sq)
                {
                    check_pattern(lives[i], "before unwind released it");
                    forget(i);
                }
        }

        //--- request resolution (soundness: only valid inputs) ---//
        size_t pick_align(uint32_t b, size_t size)
        {
            static const size_t small[] = {1, 2, 4, 8, 16};
            static const size_t big[]   = {1, 2, 4, 8, 16, 32, 64, 128, 256, 1024, 4096, 8, 16, 1};
            switch (s->fam)
            {
            case F_POOL:
            {
                size_t mx = s->max_align(), a = small[b % 5];
                while (a > mx)
                    a /= 2;
                return a;
            }
            case F_COLL:
            {
                size_t mx = ref_alignment_for(size), a = small[b % 5];
                while (a > mx)
                    a /= 2;
                return a;
            }
            case F_LOWLEVEL:
            {
                size_t mx = s->max_align(), a = small[b % 5];
                while (a > mx)
                    a /= 2;
                return a;
            }
            default:
                return big[b % 14];
            }
        }

        size_t pick_size(uint32_t a)
        {
            switch (s->fam)
            {
            case F_POOL:
            {
                size_t ns = s->nominal_size();
                switch (a % 6)
                {
                case 0:
                case 1:
                    return ns;
                case 2:
                    return 1;
                case 3:
                    return ns > 1 ? ns - 1 : 1;
                case 4:
                    return ns / 2 ? ns / 2 : 1;
                default:
                    return 1 + (a / 6) % ns;
                }
            }
            case F_COLL:
            {
                size_t mx = s->nominal_size();
                size_t v;
                switch (a % 8)
                {
                case 0:
                    v = mx;
                    break;
                case 1:
                    v = 1;
                    break;
                case 2:
                    v = size_t(1) << ((a / 8) % 10);
                    break;
                case 3:
                    v = (size_t(1) << ((a / 8) % 10)) + 1;
                    break;
                case 4:
                    v = (size_t(1) << ((a / 8) % 10)) - 1;
                    break;
                case 5:
                    v = 8;
                    break;
                default:
                    v = 1 + (a / 8) % mx;
                }
                if (v < 1)
                    v = 1;
                if (v > mx)
                    v = 1 + v % mx;
                return v;
            }
            default:
            {
                static const size_t t[] = {1, 2, 3, 7, 8, 9, 15, 16, 17, 24, 31, 32, 33, 48, 64,
                                           100, 127, 128, 255, 256, 257, 500, 1000, 1024, 2000, 4096};
                size_t v = t[a % 26];
                if ((a / 26) % 4 == 3)
                    v = 1 + (a / 104) % 6000;
                return v;
            }
            }
        }

        size_t pick_count(uint32_t a)
        {
            static const size_t t[] = {2, 3, 1, 4, 5, 7, 8, 16, 33, 50, 100, 250};
            return t[a % 12];
        }

        Iface pick_iface(uint32_t c, bool want_try)
        {
            Iface i = want_try ? COMPOSABLE : Iface((c + P(10)) % 3);
            if (mode.oracles & O_LEAK)
                i = want_try ? COMPOSABLE : TRAITS; // C15 quantifies over traits-level calls; what goes through
                                                    // the composable interface must not move the count
            if (i == COMPOSABLE && !s->has_composable)
                i = TRAITS;
            if (i == MEMBER && !s->has_member)
                i = TRAITS;
            return i;
        }

        // builds a valid request. returns false if this op is a no-op for the subject
        bool make_req(const Op& op, bool array, bool want_try, Req& r)
        {
            r.array = array;
            r.iface = pick_iface(op.c, want_try);
            if (array && !s->arrays_ok)
                return false;
            if (array)
            {
                r.size  = pick_size(op.a / 12);
                r.count = pick_count(op.a);
                if (s->fam == F_POOL && r.iface == MEMBER)
                    r.size = s->nominal_size();
                // keep ordinary array requests within max_array_size() (oversize has its own op)
                size_t mx = s->max_array();
                if (mx > 65536)
                    mx = 65536;
                if (r.size > mx)
                    return false;
                while (r.count > 1 && r.count * r.size > mx)
                    r.count /= 2;
            }
            else
            {
                r.size  = pick_size(op.a);
                r.count = 1;
                if (s->fam == F_POOL && r.iface == MEMBER)
                    r.size = s->nominal_size();
            }
            r.align = pick_align(op.b, r.size);
            if (s->fam == F_POOL && r.iface == MEMBER)
                r.align = 1; // member interface has no alignment parameter
            if (s->fam == F_COLL && r.iface == MEMBER)
                r.align = 1;
            return true;
        }

        //--- the core allocation step with failure oracle (C03) ---//
        // returns pointer or nullptr on (clean) failure
        void* do_alloc(const Req& r, bool& threw)
        {
            threw           = false;
            ++gen;
            Handlers before = H;
            uint64_t up0    = up_calls();
            void*    p      = nullptr;
            if (r.iface == COMPOSABLE)
            {
                // noexcept in the library: a throw terminates the process (crash verdict)
                p = s->try_alloc(r);
                if (has(O_FAIL) && up_calls() != up0)
                    fail("try-grew", "a try_ allocation function called the upstream allocator");
                if (!p)
                {
                    note_failure();
                    return nullptr;
                }
                return p;
            }
            try
            {
                p = s->alloc(r);
            }
            catch (vf::injected_oom& e)
            {
                threw         = true;
                last_injected = true;
                ++n_inj_fail;
                note_failure();
                if (has(O_FAIL) && e.ticket != Slab::get().alloc_calls())
                    fail("injected-changed", "injected upstream exception did not propagate unchanged");
                return nullptr;
            }
            catch (fm::bad_allocation_size& e)
            {
                threw = true;
                note_failure();
                if (has(O_FAIL))
                {
                    if (H.badsize != before.badsize + 1)
                        fail("handler-count", "bad_allocation_size thrown but handler called "
                                                  + std::to_string(H.badsize - before.badsize)
                                                  + " times");
                    else if (H.bad_passed != e.passed_value()
                             || H.bad_supported != e.supported_value()
                             || H.bad_alloc != e.allocator().allocator)
                        fail("handler-args", "bad_allocation_size handler saw different values than the exception reports");
                }
                return nullptr;
            }
            catch (fm::out_of_memory& e)
            {
                threw = true;
                note_failure();
                if (has(O_FAIL))
                {
                    if (H.oom != before.oom + 1)
                        fail("handler-count", "out_of_memory thrown but handler called "
                                                  + std::to_string(H.oom - before.oom) + " times");
                    else if (H.oom_amount != e.failed_allocation_size()
                             || H.oom_alloc != e.allocator().allocator)
                        fail("handler-args", "out_of_memory handler saw different values than the exception reports");
                }
                return nullptr;
            }
            catch (std::bad_alloc&)
            {
                threw = true;
                note_failure();
                if (has(O_FAIL))
                    fail("foreign-bad_alloc", "library failure outside its bad_allocation_size / out_of_memory families");
                return nullptr;
            }
            catch (...)
            {
                threw = true;
                note_failure();
                fail("non-bad_alloc", "allocation function threw something not derived from std::bad_alloc");
                return nullptr;
            }
            if (!p)
            {
                fail("null-return", "throwing allocation function returned nullptr (size="
                                        + std::to_string(r.size) + " count=" + std::to_string(r.count)
                                        + ")");
                return nullptr;
            }
            return p;
        }
        void note_failure()
        {
            for (auto& m : markers)
                m.recording = false; // failed attempts are not replayed (faults are one-shot)
            ++n_fail;
            if (!fail_seq)
                fail_seq = seq + 1;
        }

        // capacity bookkeeping around an allocation/release (C04 / C18)
        struct CapSnap
        {
            std::vector<size_t> v;
            uint64_t            up;
            size_t              blocks;
        };
        CapSnap snap(size_t for_size)
        {
            CapSnap c;
            s->caps(c.v, for_size);
            c.up     = up_calls();
            c.blocks = own_blocks();
            return c;
        }

        size_t nodes_consumed(const Req& r)
        {
            size_t ns = s->node_size_of(r.size);
            if (!ns)
                return 0;
            size_t n = r.bytes();
            return (n + ns - 1) / ns;
        }

        void check_alloc_caps(const Req& r, const CapSnap& b, const CapSnap& a, char* p)
        {
            bool grew = a.up != b.up;
            if (grew)
            {
                ++n_growth;
                ci.classes.insert("growth");
            }
            if (!has(O_CAPS) && !has(O_CONSERVE))
                return;
            switch (s->fam)
            {
            case F_POOL:
            {
                size_t ns = s->node_size_of(r.size), used = nodes_consumed(r) * ns;
                if (has(O_CONSERVE) && !r.array && b.v[0] >= ns && grew)
                    fail("premature-growth", "allocate_node asked the block source for memory although the free list held a node");
                if (has(O_CAPS))
                {
                    if (!grew)
                    {
                        if (b.v[0] - a.v[0] != used)
                            fail("caps-delta", "capacity_left moved by " + std::to_string(b.v[0] - a.v[0])
                                                   + " for a request consuming " + std::to_string(used));
                        if (a.v[1] != b.v[1])
                            fail("caps-next", "next_capacity changed without growth");
                    }
                    else if (a.v[0] + used > b.v[0] + b.v[1])
                        fail("caps-growth", "growth gained more than next_capacity() announced");
                    ++n_caps_checked;
                }
                break;
            }
            case F_COLL:
            {
                size_t nodes = nodes_consumed(r);
                if (has(O_CONSERVE) && !r.array && b.v[2] > 0 && grew)
                    fail("premature-growth", "allocate_node grew although the bucket's free list held a node");
                if (has(O_CAPS) && !grew && a.v[0] == b.v[0])
                {
                    // no transfer from the arena to the bucket: exact node accounting
                    if (b.v[2] - a.v[2] != nodes)
                        fail("caps-delta", "pool_capacity_left moved by " + std::to_string(b.v[2] - a.v[2])
                                               + " for a request consuming " + std::to_string(nodes)
                                               + " nodes");
                    if (a.v[1] != b.v[1])
                        fail("caps-next", "next_capacity changed without growth");
                    ++n_caps_checked;
                }
                break;
            }
            case F_STACK:
            case F_ITER:
            case F_STATIC:
                if (has(O_CAPS) && !grew && !b.v.empty()
                    && (s->fam != F_STACK || r.bytes() + 2 * fence_size + r.align - 1 <= b.v[0]))
                {
                    // (memory_stack: only when the request certainly fit into the current block —
                    // otherwise it moved on to a cached block and the figures are unrelated)
                    size_t drop = b.v[0] - a.v[0];
                    size_t lo = r.bytes() + 2 * fence_size, hi = lo + r.align;
                    if (drop < lo || drop >= hi)
                        fail("caps-delta", "capacity dropped by " + std::to_string(drop)
                                               + " for size " + std::to_string(r.bytes()) + " align "
                                               + std::to_string(r.align));
                    if (s->fam == F_STACK && a.v[1] != b.v[1])
                        fail("caps-next", "next_capacity changed without growth");
                    ++n_caps_checked;
                }
                break;
            default:
                break;
            }
            (void)p;
        }

        void check_release_caps(const Req& r, const CapSnap& b, const CapSnap& a)
        {
            if (a.up != b.up)
                fail("release-upstream", "a deallocation called the upstream allocator");
            if (!has(O_CAPS) && !has(O_CONSERVE))
                return;
            if (s->fam == F_POOL)
            {
                size_t ns = s->node_size_of(r.size), used = nodes_consumed(r) * ns;
                if (a.v[0] - b.v[0] != used)
                    fail("release-delta", "releasing " + std::to_string(r.bytes()) + " bytes ("
                                              + std::to_string(used / ns) + " nodes of " + std::to_string(ns)
                                              + ") raised capacity_left by "
                                              + std::to_string(a.v[0] - b.v[0]));
                ++n_caps_checked;
            }
            else if (s->fam == F_COLL)
            {
                size_t nodes = nodes_consumed(r);
                if (a.v[2] - b.v[2] != nodes)
                    fail("release-delta", "releasing " + std::to_string(nodes)
                                              + " nodes raised pool_capacity_left by "
                                              + std::to_string(a.v[2] - b.v[2]));
                if (a.v[0] != b.v[0])
                    fail("release-arena", "a release changed the arena's capacity_left");
                ++n_caps_checked;
            }
        }

        // guarded hook (DESIGN.md section 10): the free list must be structurally sound after every
        // operation: reachable nodes == capacity(), ordered, no cycle, caches inside the list
        void check_structure(size_t size, const char* when)
        {
            if (failed || (s->fam != F_POOL && s->fam != F_COLL))
                return;
            size_t      reach = 0;
            const char* err   = s->walk(size, reach);
            if (err)
                fail("structure", std::string("free list inconsistent ") + when + ": " + err);
            ++n_walks;
        }

        // full allocation op
        void op_alloc(const Op& op, bool array, bool want_try)
        {
            Req r;
            if (!make_req(op, array, want_try, r))
            {
                ++ci.noops;
                return;
            }
            alloc_req(r);
        }
        bool last_injected = false;
        unsigned n_retry_ok = 0;
        char* alloc_req(const Req& r)
        {
            auto     b = snap(r.size);
            bool     threw;
            last_injected = false;
            void*    p = do_alloc(r, threw);
            if (!p && last_injected && has(O_CAPS) && !failed
                && (s->fam == F_POOL || s->fam == F_COLL || s->fam == F_STACK))
            {
                // C18: a request that failed because the upstream failed consumed nothing - what the
                // next growth will provide (next_capacity) is what it was before
                auto f = snap(r.size);
                // (only if no block was acquired before the failing call: a collection may grow once
                // successfully and fail on a second growth of the same request)
                if (f.blocks == b.blocks && f.v.size() > 1 && b.v.size() > 1 && f.v[1] != b.v[1])
                    fail("caps-delta", "next_capacity() went from " + std::to_string(b.v[1]) + " to "
                                           + std::to_string(f.v[1]) + " across a request that failed in the upstream "
                                                                      "allocator and consumed nothing");
            }
            if (!p && last_injected && has(O_FAIL) && !failed)
            {
                // The request failed only because the upstream failed. "A failed request leaves the
                // allocator able to serve later valid requests": the same request, repeated with a
                // working upstream, asks the upstream for exactly what the failed attempt asked for.
                auto&  log = Slab::get().log();
                size_t failed_bytes = 0;
                for (size_t i = log.size(); i-- > 0;)
                    if (log[i].failed)
                    {
                        failed_bytes = log[i].count * log[i].size;
                        break;
                    }
                Slab::get().fail_at(0);
                size_t log0 = log.size();
                bool   threw2;
                last_injected = false;
                p             = do_alloc(r, threw2);
                if (failed)
                    return nullptr;
                for (size_t i = log0; i < Slab::get().log().size(); ++i)
                {
                    auto& e = Slab::get().log()[i];
                    if (e.kind == vf::UpCall::alloc_node || e.kind == vf::UpCall::alloc_array)
                    {
                        if (failed_bytes && e.count * e.size != failed_bytes)
                            fail("failure-changed-state", "after an upstream failure the repeated request asked the "
                                                          "upstream for " + std::to_string(e.count * e.size)
                                                              + " bytes, the failed attempt had asked for "
                                                              + std::to_string(failed_bytes));
                        break;
                    }
                }
                if (failed)
                    return nullptr;
                // (the repeated request may still fail for its own reasons - e.g. it does not fit the
                // next block at all - so only its upstream request is compared, not its outcome)
                if (p)
                    ++n_retry_ok;
            }
            if (trace)
                std::fprintf(stderr, "  alloc %s iface=%d count=%zu size=%zu align=%zu -> %p%s\n",
                             r.array ? "array" : "node", int(r.iface), r.count, r.size, r.align, p,
                             threw ? " (threw)" : "");
            if (failed)
                return nullptr;
            check_structure(r.size, "after an allocation attempt");
            if (failed)
                return nullptr;
            if (!p)
                return nullptr;
            on_alloc(p, r, r.iface == COMPOSABLE);
            if (failed)
                return nullptr;
            auto a = snap(r.size);
            if (a.blocks > blocks_peak)
                blocks_peak = a.blocks;
            if (a.up != b.up && s->fam != F_POOL && s->fam != F_COLL)
                ++n_position; // first allocation after growth
            check_alloc_caps(r, b, a, static_cast<char*>(p));
            return static_cast<char*>(p);
        }

        void release_live(size_t idx)
        {
            Live l = lives[idx];
            check_pattern(l, "at its release");
            if (failed)
                return;
            if (l.user_released)
            {
                ++ci.noops;
                return;
            }
            auto b = snap(l.req.size);
            unsigned inv0 = H.invalid;
            bool ok = true;
            if (trace)
                std::fprintf(stderr, "  release #%u %p %s iface=%d count=%zu size=%zu\n", l.id,
                             static_cast<void*>(l.p), l.req.array ? "array" : "node",
                             int(l.req.iface), l.req.count, l.req.size);
            if (l.req.iface == COMPOSABLE)
                ok = s->try_dealloc(l.p, l.req);
            else
                s->dealloc(l.p, l.req);
            if (!ok)
            {
                fail("own-rejected", "try_deallocate returned false for the allocator's own live allocation");
                return;
            }
            if (H.invalid != inv0 && has(O_NOREPORT))
            {
                fail("false-report", "invalid-pointer handler fired on a valid release");
                return;
            }
            check_structure(l.req.size, "after a release");
            if (failed)
                return;
            ++n_release;
            last_was_release = true;
            if (fail_seq && l.seq < fail_seq)
                ++n_release_old_after_fail;
            if (l.req.iface == TRAITS)
                model_net -= std::ptrdiff_t(l.bytes);
            // release order statistics (non-monotonic address order)
            if (last_released_addr)
            {
                int d = l.p > last_released_addr ? 1 : -1;
                if (rel_dir && d != rel_dir)
                    ++dir_changes;
                rel_dir = d;
            }
            last_released_addr = l.p;
            if (s->releasable)
            {
                auto a = snap(l.req.size);
                check_release_caps(l.req, b, a);
                // freed-memory pattern (C17): all bytes 0xDD except the allocator's own links
                if (fill_on && has(O_FILL) && (s->fam == F_POOL || s->fam == F_COLL))
                {
                    size_t ns = s->node_size_of(l.req.size);
                    if (ns > 2 * sizeof(void*))
                    {
                        size_t nodes = (l.bytes + ns - 1) / ns, bad = 0;
                        auto*  bp    = reinterpret_cast<unsigned char*>(l.p);
                        for (size_t i = 0; i < l.bytes; ++i)
                            bad += bp[i] != 0xDD;
                        if (bad > nodes * 2 * sizeof(void*))
                            fail("fill-free", "released pool memory does not carry the freed-memory pattern ("
                                                  + std::to_string(bad) + " other bytes in "
                                                  + std::to_string(nodes) + " nodes)");
                        ++n_fill_free;
                    }
                }
                if (has(O_BADREL) && !l.req.array)
                    freed.push_back({l.p, l.req});
                forget(idx);
            }
            else
            {
                // stack-like: bookkeeping only; the bytes stay where they are but the user gave
                // them up, so the allocator may reuse them from now on
                lives[idx].user_released = true;
            }
        }

        void op_dealloc(const Op& op)
        {
            // candidates: not yet user-released
            std::vector<size_t> cand;
            for (size_t i = 0; i < lives.size(); ++i)
                if (!lives[i].user_released
                    && !(lives[i].req.iface == MEMBER && !s->releasable))
                    cand.push_back(i);
            if (cand.empty())
            {
                ++ci.noops;
                return;
            }
            size_t pick;
            switch (op.b % 4)
            {
            case 0:
                pick = cand.back();
                break; // LIFO
            case 1:
                pick = cand.front();
                break; // FIFO
            default:
                pick = cand[op.a % cand.size()];
            }
            release_live(pick);
        }

        //--- oversize requests (C03 / C18 upper bounds) ---//
        void op_oversize(const Op& op)
        {
            Req r;
            r.iface = pick_iface(op.c, false);
            if (op.c % 4 == 3 && s->has_composable)
                r.iface = COMPOSABLE;
            size_t mxn = s->max_node(), mxa = s->max_array(), mxal = s->max_align();
            auto   over = [&](size_t mx, uint32_t cls, size_t& out) -> bool
            {
                static const size_t huge[] = {size_t(1) << 32, size_t(1) << 48, ~size_t(0),
                                              ~size_t(0) - 7, ~size_t(0) - 15, ~size_t(0) - 63};
                switch (cls % 8)
                {
                case 0:
                    if (mx == ~size_t(0))
                        return false;
                    out = mx + 1;
                    return true;
                case 1:
                    if (mx > ~size_t(0) / 2)
                        return false;
                    out = mx * 2 + 1;
                    return true;
                default:
                    out = huge[(cls % 8) - 2];
                    return out > mx;
                }
            };
            unsigned which = op.b % 3;
            if (which == 0)
            {
                // node size above max_node_size
                r.array = false;
                r.count = 1;
                r.align = 1;
                if (!over(mxn, op.a, r.size))
                {
                    ++ci.noops;
                    return;
                }
                if (s->fam == F_POOL && r.iface == MEMBER)
                    r.iface = TRAITS; // member interface has no size parameter
            }
            else if (which == 1)
            {
                if (!s->arrays_ok)
                {
                    ++ci.noops;
                    return;
                }
                if (s->fam == F_COLL && !ctx.allow_known)
                {
                    // exclusion of recorded finding F26: collections grow once before comparing
                    // an array with next_capacity(), so an array above the maximum reported
                    // before the call can succeed
                    ++ctx.excluded;
                    ++ci.noops;
                    return;
                }
                r.array = true;
                r.align = 1;
                size_t total;
                if (!over(mxa, op.a, total))
                {
                    ++ci.noops;
                    return;
                }
                // split into count * size with size a valid node size
                size_t ns = s->fam == F_POOL ? s->nominal_size() : (s->fam == F_COLL ? 8 : 16);
                r.size    = ns;
                r.count   = total / ns + 1;
                if (r.count == 0 || r.count > ~size_t(0) / ns)
                {
                    r.count = ~size_t(0) / ns; // largest product that does not wrap
                    if (r.count * r.size <= mxa)
                    {
                        ++ci.noops;
                        return;
                    }
                }
                if (s->fam == F_POOL && r.iface == MEMBER && !s->arrays_ok)
                    r.iface = TRAITS;
            }
            else
            {
                // alignment above max_alignment
                if (mxal > ~size_t(0) / 2)
                {
                    ++ci.noops;
                    return;
                }
                r.array = false;
                r.count = 1;
                r.size  = s->fam == F_POOL ? s->nominal_size() : 8;
                r.align = mxal * 2;
                if (r.iface == MEMBER && (s->fam == F_POOL || s->fam == F_COLL))
                    r.iface = TRAITS;
            }
            ci.classes.insert("oversize");
            // C18: a request above the reported maximum never succeeds.
            auto  b = snap(0);
            bool  threw;
            void* p = do_alloc(r, threw);
            if (failed)
                return;
            if (p)
            {
                if (has(O_CAPS) || has(O_FAIL))
                    fail(std::string("above-max-succeeded:") + (which == 0 ? "node" : which == 1 ? "array" : "alignment"),
                         "a request above the reported maximum succeeded (size="
                                                    + std::to_string(r.size) + " count="
                                                    + std::to_string(r.count) + " align="
                                                    + std::to_string(r.align) + ")");
                return;
            }
            (void)b;
        }

        //--- markers / unwind (C06) ---//
        void op_marker()
        {
            if (s->fam != F_STACK)
            {
                ++ci.noops;
                return;
            }
            MarkerRec m;
            m.idx = s->take_marker();
            m.seq = seq;
            m.gen = gen;
            s->caps(m.caps, 0);
            m.up_calls_at = up_calls();
            // consistency of the marker order (C06): compare with every older marker
            if (has(O_UNWIND))
                for (auto& o : markers)
                {
                    int  c     = s->marker_cmp(o.idx, m.idx);
                    // o older than (or same position as) m. Nothing happened in between: equal;
                    // a successful allocation in between: strictly less; only failed attempts in
                    // between (which may or may not have moved the top): either, but consistent
                    int  expect_eq = 2 | 4 | 16, expect_lt = 1 | 2 | 8;
                    bool bad;
                    if (o.gen == m.gen)
                        bad = c != expect_eq;
                    else if (o.seq != m.seq)
                        bad = c != expect_lt;
                    else
                        bad = c != expect_eq && c != expect_lt;
                    if (bad)
                    {
                        fail("marker-order", "marker comparison inconsistent with allocation order (mask "
                                                 + std::to_string(c) + ")");
                        return;
                    }
                }
            markers.push_back(m);
        }
        void op_unwind(const Op& op, bool replay)
        {
            if (s->fam != F_STACK || markers.empty())
            {
                ++ci.noops;
                return;
            }
            size_t i  = op.a % markers.size();
            auto   mr = markers[i];
            s->set_unwind_mode(op.b);
            size_t blocks_before = own_blocks();
            uint64_t up0 = up_calls();
            // everything above the marker is released; older allocations must survive
            release_above(mr.seq);
            if (failed)
                return;
            s->unwind(mr.idx);
            if (s->complaint_)
            {
                fail("raii-unwinder", s->complaint_);
                return;
            }
            ++gen;
            seq = mr.seq; // everything younger is gone; keeps "seq differs <=> an allocation lies between"
            size_t nested = markers.size();
            markers.resize(i + 1);
            for (auto& m : markers)
                m.recording = false;
            markers[i].gen = gen; // m == top() again from here on
            if (up_calls() != up0)
                fail("unwind-upstream", "unwind called the upstream allocator");
            if (own_blocks() != blocks_before)
                fail("unwind-returned-block", "unwind returned a block upstream before shrink_to_fit");
            if (has(O_UNWIND))
            {
                std::vector<size_t> now;
                s->caps(now, 0);
                if (now[0] != mr.caps[0])
                    fail("unwind-capacity", "capacity_left after unwind is " + std::to_string(now[0])
                                                + ", was " + std::to_string(mr.caps[0]) + " at the marker");
                // top() == m
                int t = s->take_marker();
                int c = s->marker_cmp(mr.idx, t);
                if (c != (2 | 4 | 16))
                    fail("unwind-top", "top() after unwind(m) does not compare equal to m");
                // drop the temp marker again
                s->unwind(mr.idx);
            }
            sweep("after unwind");
            if (failed)
                return;
            ++n_position; // next allocation is "after unwind"
            if (replay && has(O_UNWIND) && !mr.replay.empty() && !mr.shrunk_since)
            {
                // metamorphic: same requests => same addresses while the cache is intact
                auto m2 = markers[i];
                uint64_t seq0 = seq;
                for (size_t k = 0; k < mr.replay.size(); ++k)
                {
                    bool  threw;
                    void* p = do_alloc(mr.replay[k], threw);
                    if (failed)
                        return;
                    if (!p)
                        break; // failure (fixed upstream) — nothing to compare
                    if (p != mr.replay_addr[k])
                    {
                        fail("unwind-replay", "request #" + std::to_string(k)
                                                  + " after unwind returned a different address than the first time");
                        return;
                    }
                    on_alloc(p, mr.replay[k], false);
                    if (failed)
                        return;
                    ++n_replayed;
                }
                (void)m2;
                (void)seq0;
                if (own_blocks() > blocks_before && !s->up.bounded)
                    fail("unwind-cache", "replay after unwind acquired new blocks although unwound blocks were cached");
                if (blocks_before >= 2 && nested >= 2 && n_replayed >= 3)
                    ++n_unwind_blocks;
            }
        }

        void op_next_iteration()
        {
            if (s->fam != F_ITER)
            {
                ++ci.noops;
                return;
            }
            size_t N = s->iteration_info(2);
            s->next_iteration();
            ++iter;
            ++n_next_iter;
            // allocations born N iterations ago die now
            for (size_t i = lives.size(); i-- > 0;)
                if (lives[i].iter_born + N <= iter)
                {
                    // they must have been intact until now
                    // (checked before the call would be stronger: do it in the sweep below too)
                    forget(i);
                }
            sweep("after next_iteration");
            if (failed)
                return;
            if (has(O_ITER))
            {
                std::vector<size_t> c;
                s->caps(c, 0);
                size_t cur = s->iteration_info(0);
                if (cur != iter % N)
                    fail("iter-index", "cur_iteration() is not iteration count mod N");
                if (iter_fullcap.size() < N)
                    iter_fullcap.resize(N, ~size_t(0));
                if (iter_fullcap[cur] == ~size_t(0))
                    iter_fullcap[cur] = c[0];
                else if (iter_fullcap[cur] != c[0])
                    fail("iter-capacity", "switching to an iteration did not make its full capacity available again");
                size_t sum = 0;
                for (auto v : iter_fullcap)
                    if (v != ~size_t(0))
                        sum += v;
                if (sum > ctx.block_size)
                    fail("iter-sum", "per-iteration capacities add up to more than the block");
            }
        }

        void pre_next_iteration_check()
        {
            // allocations that die in the upcoming switch must be intact right before it
            sweep("before next_iteration");
        }

        void op_shrink()
        {
            size_t before = own_blocks();
            if (!s->shrink_to_fit())
            {
                ++ci.noops;
                return;
            }
            ++gen;
            for (auto& m : markers)
            {
                m.shrunk_since = true;
                m.recording    = false;
            }
            if (own_blocks() < before)
            {
                ++n_shrink_cached;
                ci.classes.insert("shrink-cached");
            }
            sweep("after shrink_to_fit");
        }

        void op_reserve(const Op& op)
        {
            if (s->fam != F_COLL)
            {
                ++ci.noops;
                return;
            }
            size_t size = pick_size(op.a);
            size_t ns   = s->node_size_of(size);
            size_t k    = 1 + op.b % 20;
            size_t cap  = k * ns + (s->arrays_ok ? 0 : 64);
            std::vector<size_t> c;
            s->caps(c, size);
            if (cap >= c[1] || cap + 64 >= c[1]) // documented: capacity less than next_capacity()
            {
                ++ci.noops;
                return;
            }
            auto b = snap(size);
            try
            {
                s->reserve(size, cap);
            }
            catch (vf::injected_oom&)
            {
                note_failure();
                return;
            }
            catch (fm::out_of_memory&)
            {
                note_failure();
                return;
            }
            catch (std::bad_alloc&)
            {
                note_failure();
                return;
            }
            auto a = snap(size);
            ci.classes.insert("reserve");
            if (has(O_CAPS) || has(O_CONSERVE))
            {
                // documented effect: inserts `cap` bytes of arena memory into the free list
                if (a.v[2] < b.v[2] + (s->arrays_ok ? k : 1))
                    fail("reserve-noop", "reserve(" + std::to_string(size) + ", " + std::to_string(cap)
                                             + ") raised pool_capacity_left by "
                                             + std::to_string(a.v[2] - b.v[2]) + " nodes");
            }
            sweep("after reserve");
        }

        //--- moves (C12) ---//
        void note_move()
        {
            ++n_moves;
            moved_since_start = true;
            size_t live_cnt = 0;
            for (auto& l : lives)
                live_cnt += !l.user_released;
            if (live_cnt >= 3)
            {
                ++n_moves_live3;
                if (own_blocks() >= 2 || s->up.bounded)
                    ++n_moves_2blocks;
            }
            n_ops_after_move = 0;
            ci.classes.insert("move");
            check_structure(0, "after a move");
            markers.clear();
            iter_fullcap.clear();
            sweep("after move");
        }
        void op_move(const Op& op, int what)
        {
            if (!s->movable)
            {
                ++ci.noops;
                return;
            }
            bool above = op.a % 2;
            bool ok    = false;
            unsigned leak0 = H.leak;
            // the maxima of pools and collections are constants of the object: they move with it
            bool   const_max = s->fam == F_POOL || s->fam == F_COLL;
            size_t max0      = const_max ? s->max_node() : 0;
            try
            {
                if (what == 0)
                    ok = s->move_construct(above);
                else if (what == 1)
                    ok = s->move_assign(above, int(op.b));
                else
                    ok = s->swap_with_fresh(above, int(op.b));
            }
            catch (std::bad_alloc&)
            {
                // constructing the fresh target failed (armed fault / exhausted source) before
                // anything was moved: a clean failure, nothing changed
                note_failure();
                return;
            }
            if (!ok)
            {
                ++ci.noops;
                return;
            }
            (void)leak0;
            if (const_max && s->max_node() != max0)
            {
                fail("maxima-changed-by-move", "max_node_size() was " + std::to_string(max0) + " before and is "
                                                   + std::to_string(s->max_node())
                                                   + " after a move / swap (the target had other parameters)");
                return;
            }
            note_move();
        }
        void op_zombie(const Op& op)
        {
            size_t n = s->zombies();
            if (!n)
            {
                ++ci.noops;
                return;
            }
            size_t  i     = op.a % n;
            unsigned leak0 = H.leak;
            size_t  blocks = own_blocks();
            if (op.b % 3 == 2)
            {
                try
                {
                    s->assign_to_zombie(i);
                }
                catch (std::bad_alloc&)
                {
                    note_failure();
                    return;
                }
            }
            else
            {
                s->destroy_zombie(i);
                ++n_zombie_destroyed;
                (void)blocks;
                // (the leak counter only moves with traits-level calls and has to move with the memory:
                // also part of "the moved-from object is harmless", C12)
                if (H.leak != leak0 && (has(O_LEAK) || has(O_MOVE)))
                    fail("zombie-leak", "a moved-from object reported a leak when it was destroyed");
            }
            sweep("after moved-from object was destroyed/assigned");
        }

        //--- cycle / drain (C04) ---//
        void op_cycle(const Op& op)
        {
            if (s->fam != F_POOL && s->fam != F_COLL)
            {
                ++ci.noops;
                return;
            }
            Req  r;
            Op   o2  = op;
            o2.a     = op.b;
            o2.b     = op.b / 7;
            bool arr = s->arrays_ok && (op.b % 3 == 0);
            if (!make_req(o2, arr, false, r))
            {
                ++ci.noops;
                return;
            }
            if (r.iface == COMPOSABLE)
                r.iface = TRAITS;
            unsigned k = 1 + op.a % 40;
            CapSnap  first;
            for (unsigned i = 0; i < k; ++i)
            {
                size_t n0 = lives.size();
                char*  p  = alloc_req(r);
                if (failed)
                    return;
                if (!p)
                    return; // clean failure (bounded upstream) ends the cycle
                release_live(n0);
                if (failed)
                    return;
                auto c = snap(r.size);
                if (i == 0)
                    first = c;
                else if (has(O_CONSERVE))
                {
                    if (c.up != first.up)
                    {
                        fail("cycle-growth", "allocate/release cycle #" + std::to_string(i + 1)
                                                 + " asked the block source for more memory");
                        return;
                    }
                    if (c.v != first.v)
                    {
                        fail("cycle-capacity", "capacity figures drift over repeated allocate/release cycles (cycle #"
                                                   + std::to_string(i + 1) + ")");
                        return;
                    }
                }
            }
            if (k >= 3)
                ++n_cycle3;
        }

        std::vector<size_t> all_bucket_caps()
        {
            std::vector<size_t> out, c;
            if (s->fam == F_POOL)
            {
                s->caps(c, 0);
                out.push_back(c[0]);
            }
            else if (s->fam == F_COLL)
            {
                size_t mx = s->max_node();
                for (size_t sz = 1; sz <= mx; sz = (sz < 8 ? 8 : sz + (sz < 64 ? 1 : sz / 3)))
                {
                    s->caps(c, sz);
                    out.push_back(c[2]);
                }
                s->caps(c, mx);
                out.push_back(c[2]);
                out.push_back(c[0]); // arena figure last
            }
            return out;
        }
        std::vector<size_t> drain_base;
        uint64_t            drain_base_up = 0;
        void op_drain(const Op& op)
        {
            if (!s->releasable)
            {
                ++ci.noops;
                return;
            }
            // release everything in a generated order
            unsigned order = op.a % 3;
            while (!lives.empty() && !failed)
            {
                size_t idx = order == 0 ? lives.size() - 1 : (order == 1 ? 0 : (op.b + lives.size() * 7) % lives.size());
                release_live(idx);
            }
            if (failed)
                return;
            ci.classes.insert("drain");
            if (has(O_CONSERVE) && (s->fam == F_POOL || s->fam == F_COLL))
            {
                auto now = all_bucket_caps();
                if (!drain_base.empty() && drain_base.size() == now.size())
                {
                    bool no_growth = up_calls() == drain_base_up;
                    size_t nb = s->fam == F_COLL ? now.size() - 1 : now.size();
                    for (size_t i = 0; i < nb; ++i)
                        if (now[i] < drain_base[i])
                        {
                            fail("capacity-lost", "after releasing everything a free list holds "
                                                      + std::to_string(now[i]) + " but held "
                                                      + std::to_string(drain_base[i]) + " before");
                            return;
                        }
                    if (no_growth && s->fam == F_COLL && now.back() == drain_base.back())
                        for (size_t i = 0; i < nb; ++i)
                            if (now[i] != drain_base[i])
                            {
                                fail("capacity-changed", "capacity changed over a fully released segment without any transfer");
                                return;
                            }
                    if (no_growth && s->fam == F_POOL && now[0] != drain_base[0])
                    {
                        fail("capacity-changed", "pool capacity changed over a fully released segment without growth");
                        return;
                    }
                }
                drain_base    = now;
                drain_base_up = up_calls();
            }
        }

        //--- fill the current block exactly / exhaust (C02 positions, C03 exhaustion) ---//
        void op_fill_block(const Op& op)
        {
            std::vector<size_t> c;
            s->caps(c, 0);
            Req r;
            r.iface = pick_iface(op.c, false);
            if (r.iface == COMPOSABLE && op.a % 2)
                r.iface = TRAITS;
            switch (s->fam)
            {
            case F_STACK:
            case F_ITER:
            case F_STATIC:
            {
                if (c.empty() || c[0] <= 2 * fence_size)
                {
                    ++ci.noops;
                    return;
                }
                r.array = false;
                r.align = 1;
                r.size  = c[0] - 2 * fence_size + (op.b % 3 == 2 ? 1 : 0); // exact fit / one more
                if (r.size > 65536)
                {
                    ++ci.noops;
                    return;
                }
                if (r.size > s->max_node())
                {
                    ++ci.noops;
                    return;
                }
                uint64_t up0 = up_calls();
                char* p = alloc_req(r);
                if (p && up_calls() == up0)
                {
                    ++n_position;
                    ci.classes.insert("exact-fit");
                }
                break;
            }
            default:
                ++ci.noops;
            }
        }

        void op_exhaust(const Op& op)
        {
            // keep allocating until a failure (bounded), then the history continues
            Req r;
            Op  o2 = op;
            if (!make_req(o2, false, op.b % 2, r))
            {
                ++ci.noops;
                return;
            }
            if (!s->up.bounded && s->fam != F_STATIC && s->fam != F_ITER)
            {
                ++ci.noops;
                return;
            }
            if (s->fam == F_STACK || s->fam == F_ITER || s->fam == F_STATIC)
                r.size = 64 + r.size % 512; // finish within the bound
            unsigned limit = 400;
            while (limit-- && !failed)
            {
                unsigned f0 = n_fail;
                alloc_req(r);
                if (n_fail != f0)
                {
                    ci.classes.insert("exhausted");
                    break;
                }
            }
        }

        //--- capacity probes (C18) ---//
        void op_probe(const Op& op)
        {
            if (!has(O_CAPS) && !has(O_ITER))
            {
                ++ci.noops;
                return;
            }
            std::vector<size_t> c;
            s->caps(c, 0);
            if (s->fam == F_POOL && s->has_composable)
            {
                // capacity_left()/node_size() further nodes can be taken without growth, the next cannot
                size_t ns = s->nominal_size(), n = c[0] / ns;
                if (n > 600)
                {
                    ++ci.noops;
                    return;
                }
                Req r;
                r.array = false;
                r.size  = ns;
                r.align = 1;
                r.iface = COMPOSABLE;
                uint64_t up0 = up_calls();
                std::vector<size_t> got;
                for (size_t i = 0; i < n && !failed; ++i)
                {
                    void* p = s->try_alloc(r);
                    if (!p)
                    {
                        fail("capacity-unattainable", "capacity_left() promised " + std::to_string(n)
                                                          + " nodes but try_allocate_node failed at #"
                                                          + std::to_string(i));
                        return;
                    }
                    on_alloc(p, r, true);
                    got.push_back(lives.size() - 1);
                }
                if (failed)
                    return;
                void* extra = s->try_alloc(r);
                if (extra)
                {
                    on_alloc(extra, r, true);
                    fail("capacity-understated", "try_allocate_node succeeded although capacity_left() was exhausted");
                    return;
                }
                if (up_calls() != up0)
                    fail("try-grew", "try_allocate_node called the upstream allocator");
                // undo in reverse order
                for (size_t i = got.size(); i-- > 0 && !failed;)
                    release_live(got[i]);
                ++n_probe_ok;
                ci.classes.insert("probe");
            }
            else if ((s->fam == F_STACK || s->fam == F_ITER) && s->has_composable)
            {
                if (c[0] <= 2 * fence_size + 1 || c[0] > 70000)
                {
                    ++ci.noops;
                    return;
                }
                // a request of exactly the remaining capacity (minus fences) succeeds through
                // try_allocate without growth; one byte more does not. Probe the failing one first
                // (it changes nothing), then the succeeding one; the stack keeps the allocation.
                Req r;
                r.array = false;
                r.align = 1;
                r.iface = COMPOSABLE;
                r.size  = c[0] - 2 * fence_size + 1;
                uint64_t up0 = up_calls();
                void* p = s->try_alloc(r);
                if (p)
                {
                    on_alloc(p, r, true);
                    fail("capacity-understated", "try_allocate of capacity_left()+1 succeeded");
                    return;
                }
                if (op.a % 2)
                {
                    r.size = c[0] - 2 * fence_size;
                    p      = s->try_alloc(r);
                    if (!p)
                    {
                        fail("capacity-unattainable", "try_allocate of exactly capacity_left() ("
                                                          + std::to_string(r.size) + ") failed");
                        return;
                    }
                    on_alloc(p, r, true);
                }
                if (up_calls() != up0)
                    fail("try-grew", "try_allocate called the upstream allocator");
                ++n_probe_ok;
                ci.classes.insert("probe");
            }
            else
                ++ci.noops;
        }

        void op_arm_fault(const Op& op)
        {
            if (!mode.faults || !s->has_upstream)
            {
                ++ci.noops;
                return;
            }
            Slab::get().fail_at(unsigned(up_calls()) + 1 + op.a % 2);
            ci.classes.insert("fault-armed");
        }

        //--- C08: a sibling allocator on the same slab; foreign-pointer probes ---//
        unsigned                  n_probes = 0, n_probes_adjacent = 0;
        bool                      adjacent_blocks = false;

        void make_sibling(const std::vector<const Entry*>& cand, const Entry& own)
        {
            const Entry* e = &own;
            if (P(11) % 4 == 3)
                e = cand[(P(11) / 4) % cand.size()];
            Ctx c2        = ctx;
            c2.obj_above  = !ctx.obj_above;
            c2.next_owner = 5000; // distinct owner lineage
            try
            {
                s2 = e->make(c2);
            }
            catch (std::bad_alloc&)
            {
                s2.reset();
            }
        }
        void op_sib_alloc(const Op& op)
        {
            if (!s2)
            {
                ++ci.noops;
                return;
            }
            std::swap(s, s2); // resolve the request against the sibling
            Req  r;
            bool ok = make_req(op, op.a % 5 == 0 && s->arrays_ok, s->has_composable && op.c % 2, r);
            std::swap(s, s2);
            if (!ok)
            {
                ++ci.noops;
                return;
            }
            void* p = nullptr;
            try
            {
                p = r.iface == COMPOSABLE ? s2->try_alloc(r) : s2->alloc(r);
            }
            catch (std::bad_alloc&)
            {
                return;
            }
            if (!p)
                return;
            // the sibling's allocations take part in the same disjointness / pattern model
            char* cp = static_cast<char*>(p);
            size_t n = r.bytes();
            auto it = by_addr.upper_bound(reinterpret_cast<uintptr_t>(cp));
            bool clash = false;
            if (it != by_addr.begin())
            {
                auto pr = std::prev(it);
                clash |= pr->first + pr->second > reinterpret_cast<uintptr_t>(cp);
            }
            clash |= it != by_addr.end() && reinterpret_cast<uintptr_t>(cp) + n > it->first;
            if (clash)
            {
                fail("sibling-overlap", "allocations of two sibling allocators overlap");
                return;
            }
            Live l;
            l.id    = next_id++;
            l.p     = cp;
            l.bytes = n;
            l.req   = r;
            l.seq   = 0;
            l.iter_born = 0;
            for (size_t i = 0; i < n; ++i)
                cp[i] = char(pat(l.id, i));
            lives2.push_back(l);
            by_addr[reinterpret_cast<uintptr_t>(cp)] = n;
        }
        void op_sib_dealloc(const Op& op)
        {
            if (!s2 || lives2.empty() || !s2->releasable)
            {
                ++ci.noops;
                return;
            }
            size_t i = op.a % lives2.size();
            Live   l = lives2[i];
            check_pattern(l, "(sibling's allocation) at its release");
            if (failed)
                return;
            bool ok = true;
            if (l.req.iface == COMPOSABLE)
                ok = s2->try_dealloc(l.p, l.req);
            else
                s2->dealloc(l.p, l.req);
            if (!ok)
                fail("own-rejected", "try_deallocate returned false for the allocator's own live allocation");
            by_addr.erase(reinterpret_cast<uintptr_t>(l.p));
            lives2.erase(lives2.begin() + long(i));
        }
        // try_deallocate on X for a live allocation of Y: must be rejected and change nothing
        void op_probe_foreign(const Op& op)
        {
            if (!s2 || !has(O_SIBLING))
            {
                ++ci.noops;
                return;
            }
            bool       x_probes = op.b % 2 == 0; // X (s) probes a pointer of Y (s2), or vice versa
            ISubject*  prober = x_probes ? s.get() : s2.get();
            auto&      victims = x_probes ? lives2 : lives;
            std::vector<size_t> cand;
            for (size_t i = 0; i < victims.size(); ++i)
                if (!victims[i].user_released)
                    cand.push_back(i);
            if (cand.empty() || !prober->has_composable)
            {
                ++ci.noops;
                return;
            }
            // prefer victims that touch a block boundary of the prober's blocks
            size_t pick = cand[op.a % cand.size()];
            Live   v    = victims[pick];
            Req    r    = v.req;
            if (op.c % 3 == 0 && prober->fam == F_POOL)
            {
                // ask with the prober's own node size so that only the ownership test can say no
                r.array = false;
                r.count = 1;
                r.size  = prober->nominal_size();
                r.align = 1;
            }
            std::vector<size_t> c0, c1;
            prober->caps(c0, r.size <= prober->max_node() ? r.size : 0);
            bool res = prober->try_dealloc(v.p, r);
            prober->caps(c1, r.size <= prober->max_node() ? r.size : 0);
            ++n_probes;
            if (adjacent_blocks)
                ++n_probes_adjacent;
            if (res)
            {
                fail("foreign-accepted", "try_deallocate returned true for a live allocation of a sibling allocator");
                return;
            }
            if (c0 != c1)
            {
                fail("foreign-changed-state", "a rejected try_deallocate changed the allocator's capacity figures");
                return;
            }
            size_t reach = 0;
            if (prober->fam == F_POOL || prober->fam == F_COLL)
                if (const char* err = prober->walk(r.size, reach))
                {
                    fail("foreign-changed-state", std::string("a rejected try_deallocate damaged the free list: ") + err);
                    return;
                }
            check_pattern(v, "after a sibling's rejected try_deallocate");
            ci.classes.insert("foreign-probe");
        }

        //--- C18 (a): an allocator built with min_block_size(...) serves what it was sized for ---//
        unsigned n_minblock = 0, n_minblock_nt = 0;
        template <class PoolType>
        void min_block_pool(const char* what, size_t node_size, size_t n)
        {
            using pool_t = fm::memory_pool<PoolType, fm::fixed_block_allocator<SlabAlloc>>;
            size_t bs    = pool_t::min_block_size(node_size, n);
            size_t calls0 = up_calls();
            pool_t pool(node_size, bs, SlabAlloc(7777));
            size_t got = 0;
            for (; got < n; ++got)
                if (!pool.try_allocate_node())
                    break;
            if (got != n)
                fail("min-block-size", std::string(what) + ": a pool built with min_block_size(" + std::to_string(node_size)
                                           + ", " + std::to_string(n) + ") = " + std::to_string(bs) + " served only "
                                           + std::to_string(got) + " nodes");
            else if (up_calls() != calls0 + 1)
                fail("min-block-size", std::string(what) + ": more than one upstream block was needed");
            ++n_minblock;
            if (n > 255 || node_size % 8 != 0)
                ++n_minblock_nt;
        }
        void op_min_block(const Op& op)
        {
            if (!has(O_CAPS))
            {
                ++ci.noops;
                return;
            }
            Slab::get().fail_at(0); // an armed upstream fault is not meant for the auxiliary pools built here
            size_t node_size = 1 + op.a % 512;
            size_t n         = 1 + op.b % 2000;
            if ((op.b / 2000) % 3 == 0)
            {
                // chunk boundaries of the small free list (255 nodes per chunk)
                static const long d[] = {-1, 0, 1};
                long v = long(255 * (1 + (op.b / 6000) % 7)) + d[(op.b / 42000) % 3];
                n      = size_t(v);
            }
            if (node_size * n > (size_t(1) << 20))
                n = (size_t(1) << 20) / node_size;
            switch (op.c % 4)
            {
            case 0:
                min_block_pool<fm::node_pool>("node_pool", node_size, n);
                break;
            case 1:
                min_block_pool<fm::array_pool>("array_pool", node_size, n);
                break;
            case 2:
                min_block_pool<fm::small_node_pool>("small_node_pool", node_size, n);
                break;
            default:
            {
                // memory_stack: documented as "the resulting capacity will be exactly n"
                using stack_t = fm::memory_stack<fm::fixed_block_allocator<SlabAlloc>>;
                size_t bytes  = 1 + (op.a * 37 + op.b) % 20000;
                stack_t st(stack_t::min_block_size(bytes), SlabAlloc(7778));
                if (st.capacity_left() != bytes)
                    fail("min-block-size", "memory_stack built with min_block_size(" + std::to_string(bytes)
                                               + ") has capacity_left() " + std::to_string(st.capacity_left()));
                else if (bytes > 2 * fence_size && !st.try_allocate(bytes - 2 * fence_size, 1))
                    fail("min-block-size", "memory_stack built with min_block_size(" + std::to_string(bytes)
                                               + ") cannot serve its whole capacity");
                ++n_minblock;
                ++n_minblock_nt;
            }
            }
            ci.classes.insert("min-block-size");
        }

        //--- C15: the stateless low-level allocators report their process-wide net once at exit ---//
        unsigned n_ll_exit = 0;
        static int& ll_fd()
        {
            static int fd = -1;
            return fd;
        }
        static void ll_leak_handler(const fm::allocator_info& info, std::ptrdiff_t amount)
        {
            char buf[200];
            int  n = std::snprintf(buf, sizeof buf, "LEAK %s %ld\n", info.name, long(amount));
            if (ll_fd() >= 0 && n > 0)
                (void)!write(ll_fd(), buf, size_t(n));
        }
        template <class A>
        static std::ptrdiff_t ll_history(uint32_t a, uint32_t b, unsigned leave)
        {
            using traits = fm::allocator_traits<A>;
            A                                     alloc;
            std::vector<std::pair<void*, size_t>> live;
            std::ptrdiff_t                        net = 0;
            unsigned                              n   = 3 + a % 12;
            for (unsigned i = 0; i < n; ++i)
            {
                size_t size = 1 + (a * 31 + b * 7 + i * 97) % 3000;
                void*  p    = traits::allocate_node(alloc, size, 8);
                live.emplace_back(p, size);
                if ((b >> i) % 3 == 0 && live.size() > 1)
                {
                    auto v = live[(b + i) % live.size()];
                    traits::deallocate_node(alloc, v.first, v.second, 8);
                    live.erase(live.begin() + long((b + i) % live.size()));
                }
            }
            // leave `leave` allocations behind, release the rest
            while (live.size() > leave)
            {
                traits::deallocate_node(alloc, live.back().first, live.back().second, 8);
                live.pop_back();
            }
            for (auto& v : live)
                net += std::ptrdiff_t(v.second);
            return net;
        }
        // the same on several threads at once ("process-wide net"): every thread runs balanced
        // allocate/release rounds behind a common start flag, then `leave` of them keep one node
        template <class A>
        static std::ptrdiff_t ll_history_mt(uint32_t a, uint32_t b, unsigned leave)
        {
            using traits = fm::allocator_traits<A>;
            const unsigned             T = 3 + b % 2;
            std::atomic<bool>          go{false};
            std::atomic<std::ptrdiff_t> net{0};
            std::vector<std::thread>   th;
            for (unsigned t = 0; t < T; ++t)
                th.emplace_back(
                    [&, t]
                    {
                        A      alloc;
                        size_t size = 1 + (a * 13 + t * 101) % 500;
                        while (!go.load())
                            std::this_thread::yield();
                        for (unsigned r = 0; r < 1500 + a % 1500; ++r)
                        {
                            void* p = traits::allocate_node(alloc, size, 8);
                            traits::deallocate_node(alloc, p, size, 8);
                        }
                        if (t < leave)
                        {
                            (void)traits::allocate_node(alloc, size, 8);
                            net += std::ptrdiff_t(size);
                        }
                    });
            go.store(true);
            for (auto& x : th)
                x.join();
            return net.load();
        }
        void op_ll_exit(const Op& op)
        {
            if (!has(O_LEAK) || !leak_on)
            {
                ++ci.noops;
                return;
            }
            int fds[2];
            if (pipe(fds) != 0)
                return;
            std::fflush(nullptr);
            pid_t pid = fork();
            if (pid == 0)
            {
                close(fds[0]);
                alarm(20);
                signal(SIGABRT, SIG_DFL);
                ll_fd() = fds[1];
                fm::set_leak_handler(ll_leak_handler);
                unsigned       leave = op.c % 3; // 0: balanced
                std::ptrdiff_t net   = 0;
                const char*    name  = "";
                bool mt = (op.b / 2) % 3 == 0; // several threads share the process-wide counter
                switch (op.a % 4)
                {
                case 0:
                    net  = mt ? ll_history_mt<fm::heap_allocator>(op.a, op.b, leave) :
                                ll_history<fm::heap_allocator>(op.a, op.b, leave);
                    name = "heap_allocator";
                    break;
                case 1:
                    net  = mt ? ll_history_mt<fm::malloc_allocator>(op.a, op.b, leave) :
                                ll_history<fm::malloc_allocator>(op.a, op.b, leave);
                    name = "malloc_allocator";
                    break;
                case 2:
                    net  = mt ? ll_history_mt<fm::new_allocator>(op.a, op.b, leave) :
                                ll_history<fm::new_allocator>(op.a, op.b, leave);
                    name = "new_allocator";
                    break;
                default:
                    net  = ll_history<fm::virtual_memory_allocator>(op.a, op.b, leave);
                    name = "virtual_memory_allocator";
                }
                if (mt && op.a % 4 != 3)
                    (void)!write(fds[1], "MT\n", 3);
                // a second low-level allocator in the same process ("their process-wide net", each its own)
                unsigned second = (op.a / 4) % 4;
                if ((op.b / 6) % 2 && second != op.a % 4)
                {
                    unsigned       leave2 = (op.c / 3) % 3;
                    std::ptrdiff_t net2   = 0;
                    const char*    name2  = "";
                    switch (second)
                    {
                    case 0:
                        net2  = ll_history<fm::heap_allocator>(op.a + 5, op.b + 3, leave2);
                        name2 = "heap_allocator";
                        break;
                    case 1:
                        net2  = ll_history<fm::malloc_allocator>(op.a + 5, op.b + 3, leave2);
                        name2 = "malloc_allocator";
                        break;
                    case 2:
                        net2  = ll_history<fm::new_allocator>(op.a + 5, op.b + 3, leave2);
                        name2 = "new_allocator";
                        break;
                    default:
                        net2  = ll_history<fm::virtual_memory_allocator>(op.a + 5, op.b + 3, leave2);
                        name2 = "virtual_memory_allocator";
                    }
                    char b2[200];
                    int  n2 = std::snprintf(b2, sizeof b2, "EXPECT2 %s %ld %u\n", name2, long(net2), leave2);
                    (void)!write(fds[1], b2, size_t(n2));
                }
                char buf[200];
                int  n = std::snprintf(buf, sizeof buf, "EXPECT %s %ld %u\n", name, long(net), leave);
                (void)!write(fds[1], buf, size_t(n));
                std::exit(0); // static destructors: the global leak checkers report now
            }
            close(fds[1]);
            std::string out;
            char        buf[512];
            ssize_t     n;
            while ((n = read(fds[0], buf, sizeof buf)) > 0)
                out.append(buf, size_t(n));
            close(fds[0]);
            int status = 0;
            waitpid(pid, &status, 0);
            if (!WIFEXITED(status) || WEXITSTATUS(status) != 0)
            {
                fail("ll-exit-crash", "child with a low-level allocator history died (status " + std::to_string(status) + ")");
                return;
            }
            struct Expect
            {
                std::string name;
                long        net;
            };
            std::vector<Expect> exps;
            for (const char* key : {"EXPECT ", "EXPECT2 "})
            {
                auto pos = out.find(key);
                char nm[64] = "";
                long nt = 0;
                unsigned lv = 0;
                if (pos != std::string::npos
                    && std::sscanf(out.c_str() + pos + std::strlen(key), "%63s %ld %u", nm, &nt, &lv) == 3)
                    exps.push_back({nm, nt});
            }
            if (exps.empty())
                return;
            long net = 0;
            for (auto& e : exps)
            {
                net += e.net;
                unsigned reports = 0;
                long     amount  = 0;
                size_t   q       = 0;
                while ((q = out.find("LEAK ", q)) != std::string::npos)
                {
                    char nm[160];
                    long am = 0;
                    if (std::sscanf(out.c_str() + q, "LEAK %159s %ld", nm, &am) == 2
                        && std::string(nm).find(e.name) != std::string::npos)
                    {
                        ++reports;
                        amount = am;
                    }
                    q += 5;
                }
                const std::string& name = e.name;
                if (e.net == 0 && reports != 0)
                    fail("ll-exit-spurious", name + " reported " + std::to_string(amount) + " at exit although balanced");
                else if (e.net != 0 && reports != 1)
                    fail("ll-exit-count", name + ": net " + std::to_string(e.net) + " at exit but "
                                              + std::to_string(reports) + " reports"
                                              + (exps.size() > 1 ? " (two low-level allocators were used in the process)" : ""));
                else if (e.net != 0 && fence_size == 0 && amount != e.net)
                    fail("ll-exit-amount", name + ": net " + std::to_string(e.net) + " but reported "
                                               + std::to_string(amount));
                else if (e.net != 0 && fence_size != 0 && amount < e.net)
                    fail("ll-exit-amount", name + ": reported less than the net");
            }
            {
                // a report from an allocator that was not used at all
                size_t q = 0;
                while ((q = out.find("LEAK ", q)) != std::string::npos)
                {
                    char nm[160];
                    long am = 0;
                    if (std::sscanf(out.c_str() + q, "LEAK %159s %ld", nm, &am) == 2)
                    {
                        bool known_name = false;
                        for (auto& e : exps)
                            known_name |= std::string(nm).find(e.name) != std::string::npos;
                        if (!known_name)
                            fail("ll-exit-foreign", std::string("an allocator that was not used reported a leak at exit: ") + nm);
                    }
                    q += 5;
                }
            }
            if (exps.size() > 1)
                ci.classes.insert("ll-exit-two-allocators");
            ++n_ll_exit;
            ci.classes.insert(net ? "ll-exit-leak" : "ll-exit-balanced");
            if (out.find("MT\n") != std::string::npos)
                ci.classes.insert("ll-exit-threads");
        }

        //--- C16: covered invalid releases, each in a forked child ---//
        struct Freed
        {
            char* p;
            Req   req;
        };
        std::vector<Freed> freed; // pool nodes released and not handed out again
        unsigned n_bad_calls = 0, n_bad_na = 0;
        static Runner*& child_runner()
        {
            static Runner* r = nullptr;
            return r;
        }
        std::vector<size_t> child_caps;
        static void child_invalid_handler(const fm::allocator_info&, const void*)
        {
            // reported: was the allocator's observable state still untouched?
            Runner* r = child_runner();
            if (!r || r->child_caps.empty())
                _exit(42);
            std::vector<size_t> now;
            r->s->caps(now, r->child_for_size);
            _exit(now == r->child_caps ? 42 : 43);
        }
        size_t child_for_size = 0;

        // runs `bad` in a child; -> true if the outcome is acceptable
        template <class F>
        void in_child(const char* cls, size_t for_size, F bad)
        {
            child_for_size = for_size;
            s->caps(child_caps, for_size);
            child_runner() = this;
            std::fflush(nullptr);
            pid_t pid = fork();
            if (pid == 0)
            {
                alarm(6); // a bad call takes microseconds; the inherited handler exits with 87
                signal(SIGABRT, SIG_DFL); // assertion / unreachable aborts must stay SIGABRT
                fm::set_invalid_pointer_handler(child_invalid_handler);
                int rc = 44;
                rc     = bad();
                _exit(rc);
            }
            int status = 0;
            if (pid < 0 || waitpid(pid, &status, 0) != pid)
            {
                ++ci.noops;
                return;
            }
            child_runner() = nullptr;
            if (WIFEXITED(status) && WEXITSTATUS(status) == 45)
            {
                ++n_bad_na;
                return; // the chosen bad call was not applicable after all
            }
            ++n_bad_calls;
            ci.classes.insert(std::string("bad:") + cls);
            if (WIFEXITED(status) && WEXITSTATUS(status) == 42)
                return; // reported before any state change
            if (WIFSIGNALED(status) && WTERMSIG(status) == SIGABRT)
                return; // "or at least stops the program"
            std::string what;
            if (WIFEXITED(status) && WEXITSTATUS(status) == 43)
                what = "reported, but the allocator's capacity figures had already changed";
            else if (WIFEXITED(status) && WEXITSTATUS(status) == 44)
                what = "not reported: the call returned normally";
            else if (WIFEXITED(status) && WEXITSTATUS(status) == 87)
                what = "neither reported nor stopped: the call did not return within 6 s (hang)";
            else if (WIFEXITED(status))
                what = "child exited with status " + std::to_string(WEXITSTATUS(status))
                       + " (memory error before any report)";
            else
                what = "child killed by signal " + std::to_string(WTERMSIG(status))
                       + " before any report";
            fail(std::string("bad-release:") + cls, std::string("invalid release of class '") + cls
                                                        + "': " + what);
        }

        // Every node address of the bucket serving `r`, learned without knowing the chunk layout: a
        // forked child exhausts the bucket with the non-growing try_ interface and reports what it
        // got; together with the live nodes that is the complete set of node starts (a superset if
        // the bucket took fresh memory while being drained - any address outside is invalid either way).
        std::vector<uintptr_t> learn_nodes(const Req& r)
        {
            std::vector<uintptr_t> nodes;
            if (!s->has_composable)
                return nodes;
            int fd[2];
            if (pipe(fd) != 0)
                return nodes;
            std::fflush(nullptr);
            pid_t pid = fork();
            if (pid == 0)
            {
                alarm(6);
                close(fd[0]);
                Req rr   = r;
                rr.iface = COMPOSABLE;
                std::vector<uintptr_t> got;
                for (unsigned i = 0; i < 200000; ++i)
                {
                    void* q = s->try_alloc(rr);
                    if (!q)
                        break;
                    got.push_back(reinterpret_cast<uintptr_t>(q));
                }
                size_t off = 0, bytes = got.size() * sizeof(uintptr_t);
                while (off < bytes)
                {
                    ssize_t w = write(fd[1], reinterpret_cast<const char*>(got.data()) + off, bytes - off);
                    if (w <= 0)
                        break;
                    off += size_t(w);
                }
                _exit(0);
            }
            close(fd[1]);
            uintptr_t buf[512];
            for (;;)
            {
                ssize_t n = read(fd[0], buf, sizeof buf);
                if (n <= 0)
                    break;
                nodes.insert(nodes.end(), buf, buf + size_t(n) / sizeof(uintptr_t));
            }
            close(fd[0]);
            int status = 0;
            if (pid > 0)
                waitpid(pid, &status, 0);
            if (!(WIFEXITED(status) && WEXITSTATUS(status) == 0))
                nodes.clear(); // inconclusive: no candidates
            return nodes;
        }

        void op_bad_release(const Op& op)
        {
            if (!has(O_BADREL) || !ptrchk_on)
            {
                ++ci.noops;
                return;
            }
            static char outside_buffer[256];
            unsigned    cls = op.a % 8;
            if ((s->fam == F_POOL || s->fam == F_COLL) && s->name.find("small") != std::string::npos && cls >= 3
                && cls < 6)
            {
                // edges of the node areas: one node before the first / after the last node of a run of
                // nodes (chunk header, padding between chunks, first byte behind the block), and the
                // edges of the upstream blocks
                Req r;
                r.array = false;
                r.iface = MEMBER;
                r.size  = s->fam == F_POOL ? s->nominal_size() : pick_size(op.b);
                r.align = 1;
                size_t ns = s->node_size_of(r.size);
                std::set<uintptr_t> nodes;
                for (auto& l : lives)
                    if (!l.req.array && s->node_size_of(l.req.size) == ns)
                        nodes.insert(reinterpret_cast<uintptr_t>(l.p));
                if (nodes.empty())
                {
                    ++ci.noops;
                    return;
                }
                for (auto a : learn_nodes(r))
                    nodes.insert(a);
                std::vector<uintptr_t> cand;
                const char*            cname = "small-run-end";
                if (cls == 3)
                {
                    for (auto a : nodes)
                        if (!nodes.count(a + ns))
                            cand.push_back(a + ns);
                }
                else if (cls == 4)
                {
                    cname = "small-run-begin";
                    for (auto a : nodes)
                        if (!nodes.count(a - ns) && a > ns)
                            cand.push_back(a - ns);
                }
                else
                {
                    cname = "small-block-edge";
                    for (auto& b : Slab::get().outstanding())
                        if (b.owner < static_owner_offset)
                        {
                            cand.push_back(reinterpret_cast<uintptr_t>(b.addr));
                            cand.push_back(reinterpret_cast<uintptr_t>(b.addr) + b.bytes);
                            cand.push_back(reinterpret_cast<uintptr_t>(b.addr) + b.bytes - ns);
                        }
                    std::vector<uintptr_t> keep;
                    for (auto a : cand)
                        if (!nodes.count(a))
                            keep.push_back(a);
                    cand.swap(keep);
                }
                if (cand.empty())
                {
                    ++ci.noops;
                    return;
                }
                char* q = reinterpret_cast<char*>(cand[op.c % cand.size()]);
                in_child(cname, r.size, [&] { s->dealloc(q, r); return 44; });
                return;
            }
            bool        small = s->name.find("small") != std::string::npos;
            bool        dbl_on = FOONATHAN_MEMORY_DEBUG_DOUBLE_DEALLOC_CHECK;
            if ((s->fam == F_POOL || s->fam == F_COLL) && small && cls < 3)
            {
                // pointer outside every chunk / inside a chunk but off the node boundary
                Req r;
                r.array = false;
                r.iface = MEMBER;
                r.size  = s->fam == F_POOL ? s->nominal_size() : pick_size(op.b);
                r.align = 1;
                size_t ns = s->node_size_of(r.size);
                if (cls == 0)
                {
                    char* p = outside_buffer + 64;
                    in_child("small-outside", r.size, [&] { s->dealloc(p, r); return 44; });
                }
                else if (cls == 1)
                {
                    // a live node of the same bucket, off by a non-multiple of the node size
                    for (auto& l : lives)
                        if (!l.req.array && s->node_size_of(l.req.size) == ns && ns >= 2)
                        {
                            char* p = l.p + 1 + op.c % (ns - 1);
                            Req   rr = r;
                            rr.size  = l.req.size;
                            in_child("small-off-boundary", rr.size, [&] { s->dealloc(p, rr); return 44; });
                            return;
                        }
                    ++ci.noops;
                }
                else
                {
                    // memory the allocator owns but that is not part of any chunk's node area is
                    // hard to name without knowing the layout: use the upstream block header
                    auto& out = Slab::get().outstanding();
                    for (auto& b : out)
                        if (b.owner < static_owner_offset)
                        {
                            char* p = b.addr + 1; // inside the arena's block header
                            in_child("small-block-header", r.size, [&] { s->dealloc(p, r); return 44; });
                            return;
                        }
                    ++ci.noops;
                }
                return;
            }
            if ((s->fam == F_POOL || s->fam == F_COLL) && dbl_on && !freed.empty())
            {
                // double free: first / last by address, most recently freed, middle
                size_t idx = 0;
                switch (cls % 4)
                {
                case 0:
                    idx = freed.size() - 1;
                    break; // most recently freed
                case 1:
                    for (size_t i = 0; i < freed.size(); ++i)
                        if (freed[i].p < freed[idx].p)
                            idx = i;
                    break;
                case 2:
                    for (size_t i = 0; i < freed.size(); ++i)
                        if (freed[i].p > freed[idx].p)
                            idx = i;
                    break;
                default:
                    idx = op.b % freed.size();
                }
                Freed f = freed[idx];
                if (f.req.iface == COMPOSABLE)
                    f.req.iface = TRAITS;
                static const char* names[] = {"double-free-recent", "double-free-lowest",
                                              "double-free-highest", "double-free-middle"};
                in_child(names[cls % 4], f.req.size, [&] { s->dealloc(f.p, f.req); return 44; });
                return;
            }
            if (s->fam == F_STACK)
                s->set_unwind_mode(op.a / 3);
            if (s->fam == F_STACK && (s->stale_markers() == 0 || op.c % 2))
            {
                // the child itself first makes a marker stale with valid calls: marker, allocation(s)
                // (possibly into a further block), marker, unwind to the first
                static const size_t szs[] = {1, 8, 24, 100, 400, 1500};
                in_child("stale-marker-fresh", 0,
                         [&]
                         {
                             try
                             {
                                 int m1 = s->take_marker();
                                 Req r;
                                 r.array = false;
                                 r.iface = TRAITS;
                                 r.align = 1;
                                 r.size  = std::min(szs[op.b % 6], s->max_node());
                                 if (r.size == 0)
                                     return 45;
                                 for (unsigned i = 0; i <= (op.b / 6) % 3; ++i)
                                     if (!s->alloc(r))
                                         return 45;
                                 (void)s->take_marker();
                                 s->unwind(m1);
                             }
                             catch (std::exception&)
                             {
                                 return 45; // the valid prefix was refused (bounded block source)
                             }
                             size_t last = s->stale_markers() - 1;
                             if (s->stale_markers() == 0 || !s->stale_above_top(last))
                                 return 45;
                             s->caps(child_caps, 0);
                             s->unwind_stale(last);
                             return 44;
                         });
                return;
            }
            if (s->fam == F_STACK && s->stale_markers())
            {
                size_t i = op.b % s->stale_markers();
                in_child("stale-marker", 0,
                         [&]
                         {
                             if (!s->stale_above_top(i))
                                 return 45;
                             s->unwind_stale(i);
                             return 44;
                         });
                return;
            }
            // LIFO-only block sources, driven directly
            switch (cls % 3)
            {
            case 0:
                in_child("static-block-out-of-order", 0,
                         [&]
                         {
                             static fm::static_allocator_storage<4096> st;
                             fm::static_block_allocator                a(1024, st);
                             auto b1 = a.allocate_block();
                             auto b2 = a.allocate_block();
                             auto b3 = a.allocate_block();
                             (void)b3;
                             (void)b2;
                             a.deallocate_block(op.b % 2 ? b1 : b2);
                             return 44;
                         });
                break;
            case 1:
                in_child("virtual-block-out-of-order", 0,
                         [&]
                         {
                             fm::virtual_block_allocator a(4096, 4);
                             auto                        b1 = a.allocate_block();
                             auto                        b2 = a.allocate_block();
                             auto                        b3 = a.allocate_block();
                             (void)b3;
                             a.deallocate_block(op.b % 2 ? b1 : b2);
                             return 44;
                         });
                break;
            default:
                in_child("fixed-block-none-outstanding", 0,
                         [&]
                         {
                             fm::fixed_block_allocator<SlabAlloc> a(1024, SlabAlloc(9999));
                             auto                                 b = a.allocate_block();
                             a.deallocate_block(b);
                             a.deallocate_block(b); // nothing is outstanding any more
                             return 44;
                         });
            }
        }


        //--- block sources and bare arenas driven directly, with an upstream failure (C03, C05) ---//
        // A block source whose upstream call failed must be exactly as it was: same next_block_size(),
        // and the retry with the fault gone succeeds (C03: "able to serve later valid requests").
        template <class Src>
        void blocksrc_fail_and_retry(const char* tag, Src& src, int own)
        {
            auto&  slab = Slab::get();
            size_t n0   = src.next_block_size();
            slab.fail_at(slab.alloc_calls() + 1);
            bool threw = false;
            try
            {
                auto b = src.allocate_block();
                (void)b;
            }
            catch (std::bad_alloc&)
            {
                threw = true;
            }
            slab.fail_at(0);
            if (!threw)
            {
                fail(std::string("blocksrc-fault-absorbed:") + tag, "the upstream failure did not reach the caller");
                return;
            }
            if (src.next_block_size() != n0)
            {
                fail(std::string("failure-changed-state:") + tag,
                     "next_block_size() was " + std::to_string(n0) + " before and is "
                         + std::to_string(src.next_block_size()) + " after a failed allocate_block()");
                return;
            }
            fm::memory_block b;
            try
            {
                b = src.allocate_block();
            }
            catch (std::bad_alloc&)
            {
                fail(std::string("unusable-after-failure:") + tag,
                     "allocate_block() keeps failing after the one upstream failure is gone");
                return;
            }
            auto blk = slab.find_block(b.memory);
            if (!blk || blk->owner != own || b.size != n0 || blk->bytes < b.size)
                fail(std::string("blocksrc-shape:") + tag, "block of " + std::to_string(b.size)
                                                              + " bytes, announced " + std::to_string(n0));
            src.deallocate_block(b);
            ++n_blocksrc;
        }
        unsigned n_blocksrc = 0;
        void op_blocksrc(const Op& op)
        {
            // an armed fault that has not fired yet belongs to the subject's history: leave it alone
            if (!mode.faults || Slab::get().pending_fault())
            {
                ++ci.noops;
                return;
            }
            auto&  slab = Slab::get();
            int    own  = ctx.new_owner();
            size_t bs   = (size_t(256) << (op.a % 4)) + (op.c % 3 ? 0 : 8 * (op.c % 16));
            switch (op.b % 5)
            {
            case 0:
            {
                fm::fixed_block_allocator<SlabAlloc> a(bs, SlabAlloc(own));
                blocksrc_fail_and_retry("fixed", a, own);
                if (!failed && op.a % 2)
                {
                    // after a full round trip the one block is available again, a second one is refused
                    auto b = a.allocate_block();
                    try
                    {
                        (void)a.allocate_block();
                        fail("blocksrc-fixed-second-block", "fixed_block_allocator handed out a second block");
                    }
                    catch (fm::out_of_memory&)
                    {
                    }
                    a.deallocate_block(b);
                    blocksrc_fail_and_retry("fixed-again", a, own);
                }
                break;
            }
            case 1:
            {
                fm::growing_block_allocator<SlabAlloc> a(bs, SlabAlloc(own));
                if (op.a % 2)
                {
                    auto b1 = a.allocate_block();
                    blocksrc_fail_and_retry("growing-2nd", a, own);
                    a.deallocate_block(b1);
                }
                else
                    blocksrc_fail_and_retry("growing", a, own);
                break;
            }
            case 2:
            case 3:
            {
                // a bare arena that gave its block back asks for it again while upstream fails once
                auto run = [&](auto& ar)
                {
                    auto b = ar.allocate_block();
                    (void)b;
                    ar.deallocate_block();
                    ar.shrink_to_fit();
                    size_t n0 = ar.next_block_size();
                    slab.fail_at(slab.alloc_calls() + 1);
                    bool threw = false;
                    try
                    {
                        (void)ar.allocate_block();
                    }
                    catch (std::bad_alloc&)
                    {
                        threw = true;
                    }
                    slab.fail_at(0);
                    if (!threw)
                        fail("blocksrc-fault-absorbed:arena", "the upstream failure did not reach the caller");
                    else if (ar.next_block_size() != n0)
                        fail("failure-changed-state:arena", "next_block_size() changed across a failed allocate_block()");
                    else
                        try
                        {
                            auto b2 = ar.allocate_block();
                            if (b2.size != n0)
                                fail("blocksrc-shape:arena", "block size differs from next_block_size()");
                            ar.deallocate_block();
                            ++n_blocksrc;
                        }
                        catch (std::bad_alloc&)
                        {
                            fail("unusable-after-failure:arena",
                                 "the arena keeps failing after the one upstream failure is gone");
                        }
                };
                if (op.b % 5 == 2)
                {
                    fm::memory_arena<fm::fixed_block_allocator<SlabAlloc>, true> ar(bs, SlabAlloc(own));
                    run(ar);
                }
                else
                {
                    fm::memory_arena<fm::fixed_block_allocator<SlabAlloc>, false> ar(bs, SlabAlloc(own));
                    run(ar);
                }
                break;
            }
            default:
            {
                fm::memory_arena<fm::growing_block_allocator<SlabAlloc>, true> ar(bs, SlabAlloc(own));
                (void)ar.allocate_block();
                size_t n0 = ar.next_block_size();
                slab.fail_at(slab.alloc_calls() + 1);
                try
                {
                    (void)ar.allocate_block();
                    fail("blocksrc-fault-absorbed:growing-arena", "the upstream failure did not reach the caller");
                }
                catch (std::bad_alloc&)
                {
                }
                slab.fail_at(0);
                if (!failed && ar.next_block_size() != n0)
                    fail("failure-changed-state:growing-arena",
                         "next_block_size() changed across a failed allocate_block()");
                if (!failed)
                {
                    (void)ar.allocate_block();
                    ++n_blocksrc;
                }
            }
            }
            if (!failed && slab.outstanding_of(own))
                fail("blocksrc-leak", "a block source driven directly left upstream memory outstanding");
            if (!failed && slab.last_error())
                fail("blocksrc-upstream", slab.last_error());
            ci.classes.insert("block-source-direct");
        }

        //--- end of case ---//
        void finish()
        {
            // optional drain, then destruction, then the upstream balance
            unsigned endb = P(9);
            sweep("at the end of the history");
            for (auto& l : lives2)
                check_pattern(l, "(sibling's allocation) at the end of the history");
            if (failed)
                return;
            if (s2)
            {
                for (auto& l : lives2)
                    by_addr.erase(reinterpret_cast<uintptr_t>(l.p));
                lives2.clear();
                s2->destroy_all();
                s2.reset();
            }
            bool drain_first = endb % 2 == 0 && s->releasable;
            if (has(O_CONSERVE))
                drain_first = s->releasable;
            if (drain_first)
            {
                Op o;
                o.a = endb / 2;
                o.b = endb / 7;
                op_drain(o);
                if (failed)
                    return;
            }
            else
            {
                size_t live_cnt = 0;
                for (auto& l : lives)
                    live_cnt += !l.user_released;
                if (live_cnt)
                    ++n_destroy_live;
            }
            // destroy zombies first or last
            if (endb % 4 >= 2)
                while (s->zombies())
                    s->destroy_zombie(0);
            Slab::get().fail_at(0);
            Handlers before = H;
            std::ptrdiff_t expect_net = model_net;
            const void* subj_addr = nullptr;
            (void)subj_addr;
            s->destroy_all();
            // C15: exact leak report
            if (has(O_LEAK) && leak_on)
            {
                unsigned reports = H.leak; // over the whole case: only the final owner may report
                (void)before;
                if (expect_net == 0 && reports != 0)
                    fail("leak-spurious", "leak handler called (" + std::to_string(H.leak_amount)
                                              + ") although allocations and deallocations balance");
                else if (expect_net != 0 && reports != 1)
                    fail("leak-count", "net " + std::to_string(expect_net) + " bytes but leak handler called "
                                           + std::to_string(reports) + " times");
                else if (expect_net != 0 && H.leak_amount != expect_net)
                    fail("leak-amount", "net " + std::to_string(expect_net) + " bytes but leak handler reported "
                                            + std::to_string(H.leak_amount));
            }
            if (failed)
                return;
            // C05 / C12: the upstream balance
            if (s->has_upstream)
            {
                auto& slab = Slab::get();
                if (slab.last_error())
                    fail("upstream-mismatch", slab.last_error());
                else if (own_blocks() != 0)
                    fail("upstream-leak", std::to_string(own_blocks())
                                              + " upstream block(s) never returned after destruction");
                else if (slab.lifo_violations() && (has(O_UPSTREAM) || s->up.is_static || s->up.is_virtual))
                    fail("upstream-order", "blocks were not returned in reverse order of acquisition");
            }
            if (H.invalid != 0 && has(O_NOREPORT))
                fail("false-report", "invalid-pointer handler fired during a valid history");
            if (H.overflow != 0)
                fail("false-overflow", "buffer-overflow handler fired although the harness wrote in bounds only");
        }

        void set_nontrivial()
        {
            std::string p = mode.prop;
            bool        nt = false;
            if (p == "C01")
                nt = n_alloc_ok >= 8 && n_interleaved >= 1
                     && (n_growth > 0 || array_and_node_live || buckets_used.size() >= 2
                         || n_moves_live3 > 0);
            else if (p == "C02")
                nt = n_align8 > 0 || n_position > 0;
            else if (p == "C03")
                nt = n_fail >= 1 && n_alloc_after_fail >= 1 && n_release_old_after_fail >= 1;
            else if (p == "C04")
                nt = n_arrays_odd >= 1 || (n_release >= 6 && dir_changes >= 2) || n_cycle3 >= 1;
            else if (p == "C05")
                nt = blocks_peak >= 3
                     && (n_shrink_cached > 0 || (n_moves > 0 && blocks_peak >= 2) || n_inj_fail > 0
                         || n_destroy_live > 0);
            else if (p == "C06")
                nt = n_unwind_blocks > 0;
            else if (p == "C07")
                nt = (iterN >= 2 && n_next_iter >= iterN + 1 && iter_two_alive)
                     || (iterN && ctx.block_size % iterN != 0 && n_alloc_ok >= 2 && n_next_iter >= 1);
            else if (p == "C08")
                nt = n_probes >= 1 && !lives.empty() + !lives2.empty() + n_release >= 1
                     && (n_fail >= 1 || n_probes_adjacent >= 1);
            else if (p == "C12")
                nt = n_moves_2blocks > 0 && n_ops_after_move >= 2 && n_zombie_destroyed + 1 > 0;
            else if (p == "C15")
                nt = leak_on && ((model_net != 0 && n_moves > 0) || n_arrays_odd > 0 || n_ll_exit > 0);
            else if (p == "C16")
                nt = (n_release >= 6 && dir_changes >= 2) || (n_bad_calls >= 1 && n_release >= 2);
            else if (p == "C17")
                nt = fill_on && n_fill_new >= 4 && n_fill_free >= 2;
            else if (p == "C18")
                nt = (n_arrays >= 1 && n_growth >= 1 && n_caps_checked >= 4) || n_probe_ok >= 1 || n_minblock_nt >= 1;
            ci.nontrivial = nt;
            if (n_arrays)
                ci.classes.insert("array");
            if (n_fail)
                ci.classes.insert("failure");
            if (n_inj_fail)
                ci.classes.insert("injected-failure");
            if (n_interleaved)
                ci.classes.insert("interleaved");
            if (markers.size() || n_replayed)
                ci.classes.insert("markers");
            if (n_replayed)
                ci.classes.insert("replay");
            if (n_next_iter)
                ci.classes.insert("iterations");
            if (array_and_node_live)
                ci.classes.insert("array+node-live");
            if (buckets_used.size() >= 2)
                ci.classes.insert("multi-bucket");
            if (n_destroy_live)
                ci.classes.insert("destroy-live");
            ci.counters["excluded_by_known_finding"] += ctx.excluded;
            ci.counters["structure_walks"] += n_walks;
            ci.counters["bad_calls_in_child"] += n_bad_calls;
            ci.counters["bad_calls_not_applicable"] += n_bad_na;
            ci.counters["retries_after_injected_failure"] += n_retry_ok;
            ci.counters["min_block_size_checks"] += n_minblock;
            ci.counters["foreign_probes"] += n_probes;
            ci.counters["foreign_probes_adjacent_blocks"] += n_probes_adjacent;
            ci.counters["alloc_ok"] += n_alloc_ok;
            ci.counters["release"] += n_release;
            ci.counters["fail"] += n_fail;
            ci.counters["growth"] += n_growth;
            ci.counters["caps_checked"] += n_caps_checked;
            ci.counters["fill_new_checked"] += n_fill_new;
            ci.counters["fill_free_checked"] += n_fill_free;
            ci.counters["replayed"] += n_replayed;
            ci.counters["moves"] += n_moves;
        }

        Verdict run()
        {
            // subject selection
            static bool sorted = false;
            if (!sorted)
            {
                // static-initialisation order of the subject TUs must not influence replay
                std::sort(registry().begin(), registry().end(),
                          [](const Entry& a, const Entry& b) { return a.name < b.name; });
                sorted = true;
            }
            // families whose members are few but carry the mechanism of the property get more weight
            // (cached arenas only exist in memory_stack: C05/C12)
            auto weight = [&](Family f) -> unsigned
            {
                if (f == F_STACK && (std::string(mode.prop) == "C05" || std::string(mode.prop) == "C12"))
                    return 5;
                return 1;
            };
            std::vector<const Entry*> cand;
            for (auto& e : registry())
                if (mode.families & FB(e.fam))
                    for (unsigned w = 0; w < weight(e.fam); ++w)
                        cand.push_back(&e);
            if (cand.empty())
                return Verdict::pass();
            // parameter 0 is drawn with a bias towards small values: spread it before the modulo so
            // that every subject is equally likely (saved programs pin their subject by name)
            const Entry* chosen = cand[(uint64_t(P(0)) * 2654435761u >> 8) % cand.size()];
            if (!prog.hint.empty())
            {
                // "# subject=" line: select by name (registry names normalised to the display form)
                for (auto& en : registry())
                {
                    std::string n = en.name;
                    static const char* const ups[][2] = {{"_UpG2", "/grow2"}, {"_UpG32", "/grow32"}, {"_UpFixed", "/fixed"},
                                                         {"_UpStatic", "/static"}, {"_UpVirtual", "/virtual"}};
                    for (auto& u : ups)
                    {
                        auto pos = n.find(u[0]);
                        if (pos != std::string::npos && pos + std::strlen(u[0]) == n.size())
                            n.replace(pos, std::strlen(u[0]), u[1]);
                    }
                    for (auto& ch : n)
                        if (ch == '_')
                            ch = '-';
                    if (n == prog.hint || en.name == prog.hint)
                        chosen = &en;
                }
            }
            const Entry& e = *chosen;
            if (std::getenv("VF_ECHO_SUBJECT"))
                std::fprintf(stderr, "VF-SUBJECT %s\n", e.name.c_str()); // known even if the case aborts

            static const size_t gaps[] = {64, 16, 256, 4096};
            Slab::get().reset(P(1), gaps[P(2) % 4]);
            Slab::get().clear_error();
            install_handlers();

            static const size_t node_sizes[] = {16, 1, 2, 3, 4, 7, 8, 9, 12, 15, 17, 24, 31, 32, 33,
                                                48, 63, 64, 65, 100, 128, 200, 255, 256, 300, 512};
            ctx             = Ctx{};
            ctx.node_size   = node_sizes[P(4) % 26];
            ctx.block_class = P(5);
            ctx.block_extra = P(6);
            ctx.n_param     = P(8);
            ctx.obj_above   = P(3) % 2;
            ctx.allow_known = vf::allow_known("F26");

            // a fault armed from the start (C03/C05): the k-th upstream allocation fails;
            // k==1 would hit the constructor, which the property does not cover (no allocator yet)
            try
            {
                s = e.make(ctx);
            }
            catch (std::bad_alloc&)
            {
                ++ci.noops;
                ci.subject = e.name;
                return Verdict::pass(); // construction failed cleanly (e.g. virtual reservation)
            }
            ci.subject = s->name;
            if (trace)
                std::fprintf(stderr, "subject %s node_size=%zu block_size=%zu\n", s->name.c_str(),
                             s->nominal_size(), ctx.block_size);
            if (s->fam == F_ITER)
                iterN = s->iteration_info(2);
            // (C18 arms faults through arm_fault ops only: most of its cases need undisturbed growth)
            if (mode.faults && P(7) % 4 != 0 && s->has_upstream && std::string(mode.prop) != "C18")
                Slab::get().fail_at(unsigned(up_calls()) + 1 + (P(7) / 4) % 12);
            blocks_peak = own_blocks();
            if (has(O_SIBLING))
            {
                make_sibling(cand, e);
                adjacent_blocks = Slab::get().policy() == Slab::adjacent;
            }
            if (s->fam == F_ITER && has(O_ITER))
            {
                std::vector<size_t> c;
                s->caps(c, 0);
                iter_fullcap.assign(iterN, ~size_t(0));
                iter_fullcap[s->iteration_info(0)] = c[0];
                if (s->iteration_info(1) != iterN)
                    fail("iter-max", "max_iterations() != N");
            }
            if (has(O_CONSERVE))
            {
                drain_base    = all_bucket_caps();
                drain_base_up = up_calls();
            }

            unsigned since_sweep = 0;
            for (auto& op : prog.ops)
            {
                if (failed)
                    break;
                ++ci.effective_ops;
                ++n_ops_after_move;
                if (trace)
                    std::fprintf(stderr, "op %s %u %u %u\n",
                                 op.kind < K__count ? kind_names[op.kind] : "?", op.a, op.b, op.c);
                switch (op.kind)
                {
                case K_alloc_node:
                    op_alloc(op, false, false);
                    break;
                case K_alloc_array:
                    op_alloc(op, true, false);
                    break;
                case K_try_alloc_node:
                    op_alloc(op, false, true);
                    break;
                case K_try_alloc_array:
                    op_alloc(op, true, true);
                    break;
                case K_dealloc:
                    op_dealloc(op);
                    break;
                case K_oversize:
                    op_oversize(op);
                    break;
                case K_marker:
                    op_marker();
                    break;
                case K_unwind:
                    op_unwind(op, false);
                    break;
                case K_replay_unwind:
                    op_unwind(op, true);
                    break;
                case K_next_iteration:
                    if (s->fam == F_ITER)
                        pre_next_iteration_check();
                    if (!failed)
                        op_next_iteration();
                    break;
                case K_shrink:
                    op_shrink();
                    break;
                case K_reserve:
                    op_reserve(op);
                    break;
                case K_move_ctor:
                    op_move(op, 0);
                    break;
                case K_move_assign:
                    op_move(op, 1);
                    break;
                case K_swap:
                    op_move(op, 2);
                    break;
                case K_zombie:
                    op_zombie(op);
                    break;
                case K_sweep:
                    sweep("at a sweep");
                    break;
                case K_cycle:
                    op_cycle(op);
                    break;
                case K_drain:
                    op_drain(op);
                    break;
                case K_fill_block:
                    op_fill_block(op);
                    break;
                case K_exhaust:
                    op_exhaust(op);
                    break;
                case K_probe:
                    op_probe(op);
                    break;
                case K_arm_fault:
                    op_arm_fault(op);
                    break;
                case K_blocksrc:
                    op_blocksrc(op);
                    break;
                case K_bad_release:
                    op_bad_release(op);
                    break;
                case K_sib_alloc:
                    op_sib_alloc(op);
                    break;
                case K_sib_dealloc:
                    op_sib_dealloc(op);
                    break;
                case K_probe_foreign:
                    op_probe_foreign(op);
                    break;
                case K_min_block:
                    op_min_block(op);
                    break;
                case K_ll_exit:
                    op_ll_exit(op);
                    break;
                default:
                    ++ci.noops;
                }
                if (++since_sweep >= 16 && !failed)
                {
                    since_sweep = 0;
                    sweep("at a periodic sweep");
                }
                if (!failed && Slab::get().last_error())
                    fail("upstream-mismatch", Slab::get().last_error());
            }
            if (!failed)
                finish();
            set_nontrivial();
            // always leave the process clean for the next case
            Slab::get().fail_at(0);
            if (failed)
            {
                (void)s.release(); // state may be corrupt: never run destructors after a violation
                (void)s2.release();
            }
            else
                s.reset();
            return failed ? verdict : Verdict::pass();
        }
    };

    struct HistTarget : vf::Target
    {
        const char* name() const override
        {
            return "hist";
        }
        bool spec(const std::string& property, Spec& out) const override
        {
            auto* m = find_mode(property);
            if (!m)
                return false;
            out.nparams = 12;
            out.max_ops = m->max_ops;
            out.kinds.clear();
            for (unsigned k = 0; k < K__count; ++k)
                out.kinds.push_back({kind_names[k], m->w[k]});
            out.rule = m->rule;
            return true;
        }
        void init(const std::string&) override
        {
            Slab::get().map();
        }
        Verdict run(const Spec& spec, const Program& p, CaseInfo& ci) override
        {
            auto*  m = find_mode(spec.property);
            Runner r(*m, p, ci);
            return r.run();
        }
    };
} // namespace

vf::Target& vf::the_target()
{
    static HistTarget t;
    return t;
}
