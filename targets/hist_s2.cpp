// hist_s2.cpp — memory_pool_collection subjects, identity buckets
#include "hist_pools.hpp"
using namespace hist;
#define K3(UP)                                                                                     \
    HIST_REG(K_node_id_##UP, F_COLL, CollSubj<fm::node_pool, fm::identity_buckets, UP>);           \
    HIST_REG(K_array_id_##UP, F_COLL, CollSubj<fm::array_pool, fm::identity_buckets, UP>);         \
    HIST_REG(K_small_id_##UP, F_COLL, CollSubj<fm::small_node_pool, fm::identity_buckets, UP>)
K3(UpG2);
K3(UpG32);
K3(UpFixed);
K3(UpStatic);
K3(UpVirtual);
