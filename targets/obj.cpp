// obj.cpp — object-creating helpers and joint allocations.
//   C11: joint allocations stay inside the object's single upstream block; freed whole; clone independent
//   C20: exception safety of allocate_unique / allocate_unique<T[]> / allocate_shared / joint_ptr creation /
//        clone_joint / every joint_array constructor form, with a failure injected at every element index
#include <list>
#include <map>
#include <memory>
#include <string>
#include <vector>

#include <foonathan/memory/joint_allocator.hpp>
#include <foonathan/memory/memory_stack.hpp>
#include <foonathan/memory/smart_ptr.hpp>
#include <foonathan/memory/std_allocator.hpp>

#include "../vf/slab.hpp"
#include "../vf/vf.hpp"

namespace fm = foonathan::memory;
using vf::CaseInfo;
using vf::Op;
using vf::Program;
using vf::Slab;
using vf::Spec;
using vf::Verdict;

namespace
{
    //=== logging leaf (stateful, unbounded) ===//
    class OLeaf
    {
    public:
        using is_stateful = std::true_type;
        explicit OLeaf(int owner) : owner_(owner) {}
        OLeaf(const OLeaf&)            = delete;
        OLeaf& operator=(const OLeaf&) = delete;
        void* allocate_node(std::size_t size, std::size_t align)
        {
            return Slab::get().allocate(owner_, false, 1, size, align);
        }
        void* allocate_array(std::size_t count, std::size_t size, std::size_t align)
        {
            return Slab::get().allocate(owner_, true, count, size, align);
        }
        void deallocate_node(void* p, std::size_t size, std::size_t align) noexcept
        {
            Slab::get().deallocate(owner_, false, p, 1, size, align);
        }
        void deallocate_array(void* p, std::size_t count, std::size_t size, std::size_t align) noexcept
        {
            Slab::get().deallocate(owner_, true, p, count, size, align);
        }
        std::size_t max_node_size() const
        {
            return size_t(1) << 30;
        }
        std::size_t max_alignment() const
        {
            return 4096;
        }
        int owner() const
        {
            return owner_;
        }

    private:
        int owner_;
    };

    // node-only logging leaf: array requests reach it through the default fallbacks of allocator_traits
    class OMinLeaf
    {
    public:
        using is_stateful = std::true_type;
        explicit OMinLeaf(int owner) : owner_(owner) {}
        OMinLeaf(const OMinLeaf&)            = delete;
        OMinLeaf& operator=(const OMinLeaf&) = delete;
        void* allocate_node(std::size_t size, std::size_t align)
        {
            return Slab::get().allocate(owner_, false, 1, size, align);
        }
        void deallocate_node(void* p, std::size_t size, std::size_t align) noexcept
        {
            Slab::get().deallocate(owner_, false, p, 1, size, align);
        }

    private:
        int owner_;
    };

    //=== throwing element type with a ledger ===//
    struct Ledger
    {
        std::map<const void*, int> alive;
        unsigned creations = 0, destructions = 0, fail_at = 0;
        bool     error = false;
        std::string what;
        void bad(const std::string& w)
        {
            if (!error)
            {
                error = true;
                what  = w;
            }
        }
    };
    Ledger* L;

    struct boom_fail
    {
        unsigned ticket;
    };

    struct Boom
    {
        uint32_t v;
        uint32_t check;
        void born()
        {
            ++L->creations;
            if (L->fail_at && L->creations == L->fail_at)
                throw boom_fail{L->creations};
            if (L->alive.count(this))
                L->bad("object constructed on top of a live object");
            L->alive[this] = 1;
            check          = 0xB00Bu;
        }
        Boom() : v(7)
        {
            born();
        }
        explicit Boom(uint32_t x) : v(x)
        {
            born();
        }
        Boom(const Boom& o) : v(o.v)
        {
            born();
        }
        Boom(Boom&& o) : v(o.v)
        {
            born();
        }
        Boom& operator=(const Boom&) = default;
        ~Boom()
        {
            ++L->destructions;
            auto it = L->alive.find(this);
            if (it == L->alive.end())
                L->bad("destructor ran on an object that is not alive (destroyed twice or never constructed)");
            else
                L->alive.erase(it);
        }
    };
    // like Boom, but the default constructor is noexcept (and cannot fail): whether the *selected*
    // constructor may throw must not be derived from the default constructor
    struct Boom2
    {
        uint32_t v;
        void born()
        {
            ++L->creations;
            if (L->fail_at && L->creations == L->fail_at)
                throw boom_fail{L->creations};
            if (L->alive.count(this))
                L->bad("object constructed on top of a live object");
            L->alive[this] = 1;
        }
        Boom2() noexcept : v(7)
        {
            L->alive[this] = 1; // not a faultable creation
        }
        explicit Boom2(uint32_t x) : v(x)
        {
            born();
        }
        Boom2(const Boom2& o) : v(o.v)
        {
            born();
        }
        Boom2(Boom2&& o) : v(o.v)
        {
            born();
        }
        ~Boom2()
        {
            ++L->destructions;
            if (!L->alive.erase(this))
                L->bad("destructor ran on an object that is not alive (destroyed twice or never constructed)");
        }
    };
    // default constructor is noexcept: allocate_unique<T[]> takes its non-guarded path
    struct BoomNE
    {
        uint32_t v = 1;
        BoomNE() noexcept
        {
            ++L->creations;
            L->alive[this] = 1;
        }
        ~BoomNE()
        {
            ++L->destructions;
            if (!L->alive.erase(this))
                L->bad("noexcept element destroyed twice or never constructed");
        }
    };

    // an input iterator (single pass) over a vector of Boom
    struct InputIt
    {
        using iterator_category = std::input_iterator_tag;
        using value_type        = Boom;
        using difference_type   = std::ptrdiff_t;
        using pointer           = const Boom*;
        using reference         = const Boom&;
        const Boom*             p;
        reference operator*() const
        {
            return *p;
        }
        InputIt& operator++()
        {
            ++p;
            return *this;
        }
        InputIt operator++(int)
        {
            InputIt t = *this;
            ++p;
            return t;
        }
        bool operator==(const InputIt& o) const
        {
            return p == o.p;
        }
        bool operator!=(const InputIt& o) const
        {
            return p != o.p;
        }
    };

    //=== joint types for C20 ===//
    struct Args
    {
        unsigned                 form; // which joint_array constructor
        size_t                   n;
        const std::vector<Boom>* src;
        bool                     retry = false; // catch a failure in the constructor body and retry
        bool*                    retried = nullptr;
        void*                    other   = nullptr; // forms 5 / 6: a joint_array<Boom> to copy / move from
    };

    struct JBoom : fm::joint_type<JBoom>
    {
        alignas(fm::joint_array<Boom>) unsigned char store[sizeof(fm::joint_array<Boom>)];
        bool                                         built = false;
        fm::joint_array<Boom>& arr()
        {
            return *reinterpret_cast<fm::joint_array<Boom>*>(store);
        }
        const fm::joint_array<Boom>& arr() const
        {
            return *reinterpret_cast<const fm::joint_array<Boom>*>(store);
        }
        void build(const Args& a)
        {
            void* st = store;
            switch (a.form)
            {
            case 0:
                ::new (st) fm::joint_array<Boom>(a.n, *this);
                break;
            case 1:
                ::new (st) fm::joint_array<Boom>(a.n, (*a.src)[0], *this);
                break;
            case 2:
            {
                // initializer_list of up to 4 elements (copied into the list, then into the array)
                const auto& s = *a.src;
                switch (a.n % 5)
                {
                case 0:
                    ::new (st) fm::joint_array<Boom>(std::initializer_list<Boom>{}, *this);
                    break;
                case 1:
                    ::new (st) fm::joint_array<Boom>({s[0]}, *this);
                    break;
                case 2:
                    ::new (st) fm::joint_array<Boom>({s[0], s[1]}, *this);
                    break;
                case 3:
                    ::new (st) fm::joint_array<Boom>({s[0], s[1], s[2]}, *this);
                    break;
                default:
                    ::new (st) fm::joint_array<Boom>({s[0], s[1], s[2], s[3]}, *this);
                }
                break;
            }
            case 3:
                ::new (st) fm::joint_array<Boom>(a.src->data(), a.src->data() + a.n, *this);
                break;
            case 5:
                ::new (st) fm::joint_array<Boom>(*static_cast<const fm::joint_array<Boom>*>(a.other), *this);
                break;
            case 6:
                ::new (st) fm::joint_array<Boom>(std::move(*static_cast<fm::joint_array<Boom>*>(a.other)), *this);
                break;
            default:
                ::new (st) fm::joint_array<Boom>(InputIt{a.src->data()}, InputIt{a.src->data() + a.n}, *this);
            }
            built = true;
        }
        JBoom(fm::joint j, const Args& a) : fm::joint_type<JBoom>(j)
        {
            if (!a.retry)
                build(a);
            else
            {
                try
                {
                    build(a);
                }
                catch (boom_fail&)
                {
                    // "the memory will be released directly": a second attempt in the same
                    // (exact-fit) object must find the joint memory unused again
                    L->fail_at = 0;
                    *a.retried = true;
                    Args again = a;
                    if (again.form >= 5)
                        again.form = 3; // second attempt from the plain range (the other array may be moved from)
                    build(again);
                }
            }
        }
        // copy / move with allocator (clone_joint uses the copy form)
        JBoom(fm::joint j, const JBoom& o) : fm::joint_type<JBoom>(j)
        {
            ::new (static_cast<void*>(store)) fm::joint_array<Boom>(o.arr(), *this);
            built = true;
        }
        JBoom(fm::joint j, JBoom&& o) : fm::joint_type<JBoom>(j)
        {
            ::new (static_cast<void*>(store)) fm::joint_array<Boom>(std::move(o.arr()), *this);
            built = true;
        }
        ~JBoom()
        {
            if (built)
                arr().~joint_array<Boom>();
        }
    };

    //=== joint types for C11 ===//
    template <size_t S, size_t A>
    struct alignas(A) El
    {
        unsigned char b[S];
    };
    struct Range
    {
        const char* p;
        size_t      n, align;
    };
    int* g_dtor_count;

    template <class E>
    struct JA : fm::joint_type<JA<E>>
    {
        fm::joint_array<E> arr;
        JA(fm::joint j, size_t n, size_t) : fm::joint_type<JA<E>>(j), arr(n, *this) {}
        JA(fm::joint j, const JA& o) : fm::joint_type<JA<E>>(j), arr(o.arr, *this) {}
        JA(fm::joint j, JA&& o) : fm::joint_type<JA<E>>(j), arr(std::move(o.arr), *this) {}
        ~JA()
        {
            ++*g_dtor_count;
        }
        void ranges(std::vector<Range>& out) const
        {
            out.push_back({reinterpret_cast<const char*>(arr.data()), arr.size() * sizeof(E), alignof(E)});
        }
        void fill(unsigned char seed)
        {
            for (size_t i = 0; i < arr.size(); ++i)
                std::memset(&arr[i], seed + int(i), sizeof(E));
        }
        bool same(const JA& o) const
        {
            return arr.size() == o.arr.size()
                   && (arr.size() == 0 || std::memcmp(arr.data(), o.arr.data(), arr.size() * sizeof(E)) == 0);
        }
        bool mutate(unsigned, unsigned)
        {
            return false; // joint_array has a fixed size
        }
        static size_t need(size_t n, size_t)
        {
            return n * sizeof(E);
        }
    };
    // single-pass iterator producing n value-initialised elements (exercises the growing
    // iterator-range constructor of joint_array)
    template <class E>
    struct GenIt
    {
        using iterator_category = std::input_iterator_tag;
        using value_type        = E;
        using difference_type   = std::ptrdiff_t;
        using pointer           = const E*;
        using reference         = const E&;
        size_t                  i;
        E                       v{};
        reference operator*() const
        {
            return v;
        }
        GenIt& operator++()
        {
            ++i;
            return *this;
        }
        GenIt operator++(int)
        {
            GenIt t = *this;
            ++i;
            return t;
        }
        bool operator==(const GenIt& o) const
        {
            return i == o.i;
        }
        bool operator!=(const GenIt& o) const
        {
            return i != o.i;
        }
    };
    template <class E>
    struct JR : fm::joint_type<JR<E>>
    {
        fm::joint_array<E> arr;
        JR(fm::joint j, size_t n, size_t) : fm::joint_type<JR<E>>(j), arr(GenIt<E>{0}, GenIt<E>{n}, *this) {}
        JR(fm::joint j, const JR& o) : fm::joint_type<JR<E>>(j), arr(o.arr, *this) {}
        JR(fm::joint j, JR&& o) : fm::joint_type<JR<E>>(j), arr(std::move(o.arr), *this) {}
        ~JR()
        {
            ++*g_dtor_count;
        }
        void ranges(std::vector<Range>& out) const
        {
            out.push_back({reinterpret_cast<const char*>(arr.data()), arr.size() * sizeof(E), alignof(E)});
        }
        void fill(unsigned char seed)
        {
            for (size_t i = 0; i < arr.size(); ++i)
                std::memset(&arr[i], seed + int(i), sizeof(E));
        }
        bool same(const JR& o) const
        {
            return arr.size() == o.arr.size()
                   && (arr.size() == 0 || std::memcmp(arr.data(), o.arr.data(), arr.size() * sizeof(E)) == 0);
        }
        bool mutate(unsigned, unsigned)
        {
            return false; // joint_array has a fixed size
        }
    };
    template <class E1, class E2>
    struct JB : fm::joint_type<JB<E1, E2>>
    {
        fm::joint_array<E1> a1;
        fm::joint_array<E2> a2;
        JB(fm::joint j, size_t n, size_t m) : fm::joint_type<JB>(j), a1(n, *this), a2(m, *this) {}
        JB(fm::joint j, const JB& o) : fm::joint_type<JB>(j), a1(o.a1, *this), a2(o.a2, *this) {}
        JB(fm::joint j, JB&& o) : fm::joint_type<JB>(j), a1(std::move(o.a1), *this), a2(std::move(o.a2), *this) {}
        ~JB()
        {
            ++*g_dtor_count;
        }
        void ranges(std::vector<Range>& out) const
        {
            out.push_back({reinterpret_cast<const char*>(a1.data()), a1.size() * sizeof(E1), alignof(E1)});
            out.push_back({reinterpret_cast<const char*>(a2.data()), a2.size() * sizeof(E2), alignof(E2)});
        }
        void fill(unsigned char seed)
        {
            for (size_t i = 0; i < a1.size(); ++i)
                std::memset(&a1[i], seed + int(i), sizeof(E1));
            for (size_t i = 0; i < a2.size(); ++i)
                std::memset(&a2[i], seed + 100 + int(i), sizeof(E2));
        }
        bool same(const JB& o) const
        {
            return a1.size() == o.a1.size() && a2.size() == o.a2.size()
                   && (!a1.size() || !std::memcmp(a1.data(), o.a1.data(), a1.size() * sizeof(E1)))
                   && (!a2.size() || !std::memcmp(a2.data(), o.a2.data(), a2.size() * sizeof(E2)));
        }
        bool mutate(unsigned, unsigned)
        {
            return false;
        }
    };
    // two arrays, the second one built from a single-pass range while the stack top is (usually)
    // not aligned for its element type
    template <class E1, class E2>
    struct JBR : fm::joint_type<JBR<E1, E2>>
    {
        fm::joint_array<E1> a1;
        fm::joint_array<E2> a2;
        // recorded finding F17b: an *empty* array built from an empty range consumes no alignment
        // padding, its copy does - clone_joint of such an object cannot fit (excluded unless probing)
        JBR(fm::joint j, size_t n, size_t m)
        : fm::joint_type<JBR>(j), a1(n, *this),
          a2(GenIt<E2>{0}, GenIt<E2>{m == 0 && !vf::allow_known("F17b") ? 1 : m}, *this)
        {
        }
        JBR(fm::joint j, const JBR& o) : fm::joint_type<JBR>(j), a1(o.a1, *this), a2(o.a2, *this) {}
        JBR(fm::joint j, JBR&& o) : fm::joint_type<JBR>(j), a1(std::move(o.a1), *this), a2(std::move(o.a2), *this) {}
        ~JBR()
        {
            ++*g_dtor_count;
        }
        void ranges(std::vector<Range>& out) const
        {
            out.push_back({reinterpret_cast<const char*>(a1.data()), a1.size() * sizeof(E1), alignof(E1)});
            out.push_back({reinterpret_cast<const char*>(a2.data()), a2.size() * sizeof(E2), alignof(E2)});
        }
        void fill(unsigned char seed)
        {
            for (size_t i = 0; i < a1.size(); ++i)
                std::memset(&a1[i], seed + int(i), sizeof(E1));
            for (size_t i = 0; i < a2.size(); ++i)
                std::memset(&a2[i], seed + 100 + int(i), sizeof(E2));
        }
        bool same(const JBR& o) const
        {
            return a1.size() == o.a1.size() && a2.size() == o.a2.size()
                   && (!a1.size() || !std::memcmp(a1.data(), o.a1.data(), a1.size() * sizeof(E1)))
                   && (!a2.size() || !std::memcmp(a2.data(), o.a2.data(), a2.size() * sizeof(E2)));
        }
        bool mutate(unsigned, unsigned)
        {
            return false;
        }
    };
    template <class E>
    struct JV : fm::joint_type<JV<E>>
    {
        using vec_t = std::vector<E, fm::std_allocator<E, fm::joint_allocator>>;
        vec_t vec;
        JV(fm::joint j, size_t n, size_t) : fm::joint_type<JV<E>>(j), vec(fm::joint_allocator(*this))
        {
            vec.reserve(n);
            for (size_t i = 0; i < n; ++i)
                vec.push_back(E{});
        }
        JV(fm::joint j, const JV& o) : fm::joint_type<JV<E>>(j), vec(o.vec, fm::joint_allocator(*this)) {}
        // the documented idiom for moving a joint object: move every member with the new allocator
        JV(fm::joint j, JV&& o) : fm::joint_type<JV<E>>(j), vec(std::move(o.vec), fm::joint_allocator(*this)) {}
        ~JV()
        {
            ++*g_dtor_count;
        }
        void ranges(std::vector<Range>& out) const
        {
            out.push_back({reinterpret_cast<const char*>(vec.data()), vec.capacity() * sizeof(E), alignof(E)});
        }
        void fill(unsigned char seed)
        {
            for (size_t i = 0; i < vec.size(); ++i)
                std::memset(&vec[i], seed + int(i), sizeof(E));
        }
        bool same(const JV& o) const
        {
            return vec.size() == o.vec.size()
                   && (vec.empty() || !std::memcmp(vec.data(), o.vec.data(), vec.size() * sizeof(E)));
        }
        // container operations after construction: every one allocates and/or releases joint memory
        // while other pieces of the object are live (out_of_fixed_memory leaves the container as it was)
        bool mutate(unsigned how, unsigned k)
        {
            try
            {
                switch (how % 4)
                {
                case 0:
                    for (unsigned i = 0; i <= k % 40; ++i)
                        vec.push_back(E{});
                    break;
                case 1:
                    vec.shrink_to_fit();
                    break;
                case 2:
                {
                    vec_t tmp(vec.get_allocator());
                    vec.swap(tmp); // the old buffer is released when tmp dies
                    break;
                }
                default:
                    vec.clear();
                    vec.reserve(1 + k % 9);
                }
            }
            catch (fm::out_of_fixed_memory&)
            {
            }
            catch (std::length_error&)
            {
            }
            return true;
        }
    };
    struct JM : fm::joint_type<JM>
    {
        using vec_t = std::vector<uint32_t, fm::std_allocator<uint32_t, fm::joint_allocator>>;
        using str_t = std::basic_string<char, std::char_traits<char>, fm::std_allocator<char, fm::joint_allocator>>;
        vec_t                     vec;
        fm::joint_array<uint16_t> arr;
        str_t                     str;
        JM(fm::joint j, size_t n, size_t m)
        : fm::joint_type<JM>(j), vec(fm::joint_allocator(*this)), arr(m, *this), str(fm::joint_allocator(*this))
        {
            vec.reserve(n);
            for (size_t i = 0; i < n; ++i)
                vec.push_back(uint32_t(i));
            str.assign(n + 20, 'x'); // beyond the small-string buffer
        }
        JM(fm::joint j, const JM& o)
        : fm::joint_type<JM>(j), vec(o.vec, fm::joint_allocator(*this)), arr(o.arr, *this),
          str(o.str, fm::joint_allocator(*this))
        {
        }
        JM(fm::joint j, JM&& o)
        : fm::joint_type<JM>(j), vec(std::move(o.vec), fm::joint_allocator(*this)), arr(std::move(o.arr), *this),
          str(std::move(o.str), fm::joint_allocator(*this))
        {
        }
        ~JM()
        {
            ++*g_dtor_count;
        }
        void ranges(std::vector<Range>& out) const
        {
            out.push_back({reinterpret_cast<const char*>(vec.data()), vec.capacity() * 4, 4});
            out.push_back({reinterpret_cast<const char*>(arr.data()), arr.size() * 2, 2});
            // a short string lives in the string object itself (no joint memory)
            auto self = reinterpret_cast<const char*>(this);
            bool sso  = str.data() >= self && str.data() < self + sizeof(JM);
            out.push_back({str.data(), sso ? 0 : str.capacity() + 1, 1});
        }
        void fill(unsigned char seed)
        {
            for (auto& v : vec)
                v = seed;
            for (size_t i = 0; i < arr.size(); ++i)
                arr[i] = seed;
            for (auto& c : str)
                c = char('a' + seed % 20);
        }
        bool same(const JM& o) const
        {
            return vec == o.vec && str == o.str && arr.size() == o.arr.size()
                   && (!arr.size() || !std::memcmp(arr.data(), o.arr.data(), arr.size() * 2));
        }
        bool mutate(unsigned how, unsigned k)
        {
            try
            {
                switch (how % 6)
                {
                case 0:
                    for (unsigned i = 0; i <= k % 40; ++i)
                        vec.push_back(i);
                    break;
                case 1:
                    vec.shrink_to_fit();
                    break;
                case 2:
                {
                    vec_t tmp(vec.get_allocator());
                    vec.swap(tmp);
                    break;
                }
                case 3:
                    str.append(1 + k % 50, 'y');
                    break;
                case 4:
                    str.shrink_to_fit();
                    break;
                default:
                {
                    str_t tmp(str.get_allocator());
                    str.swap(tmp);
                }
                }
            }
            catch (fm::out_of_fixed_memory&)
            {
            }
            catch (std::length_error&)
            {
            }
            return true;
        }
    };

    // container members of one live joint object assigned from those of another (copy / move assignment;
    // joint_allocator does not propagate, so the target keeps using its own object's memory)
    template <class J>
    struct joint_assignable : std::false_type
    {
    };
    template <class E>
    struct joint_assignable<JV<E>> : std::true_type
    {
    };
    template <>
    struct joint_assignable<JM> : std::true_type
    {
    };
    template <class J>
    bool joint_assign(J&, J&, unsigned)
    {
        return false;
    }
    template <class E>
    bool joint_assign(JV<E>& to, JV<E>& from, unsigned how)
    {
        try
        {
            if (how % 2)
                to.vec = std::move(from.vec);
            else
                to.vec = from.vec;
        }
        catch (fm::out_of_fixed_memory&)
        {
        }
        catch (std::length_error&)
        {
        }
        return true;
    }
    inline bool joint_assign(JM& to, JM& from, unsigned how)
    {
        try
        {
            if (how % 2)
            {
                if ((how / 2) % 2)
                    to.vec = std::move(from.vec);
                else
                    to.str = std::move(from.str);
            }
            else if ((how / 2) % 2)
                to.vec = from.vec;
            else
                to.str = from.str;
        }
        catch (fm::out_of_fixed_memory&)
        {
        }
        catch (std::length_error&)
        {
        }
        return true;
    }

    struct Fail
    {
        bool        failed = false;
        Verdict     v;
        std::string prop, subject;
        void operator()(const std::string& oracle, const std::string& msg)
        {
            if (failed)
                return;
            failed = true;
            v      = Verdict::fail(prop + "|" + subject + "|" + oracle, msg);
        }
    };

    //=== C11 runner for one joint type ===//
    template <class J>
    struct JointCase
    {
        Fail&       fail;
        CaseInfo&   ci;
        OLeaf       leafA{21}, leafB{22};
        using ptr_t = fm::joint_ptr<J, OLeaf>;
        std::vector<std::unique_ptr<ptr_t>> slots;
        std::vector<unsigned char>          seeds;
        // memory obtained from joint_allocator(object) after construction: dies with the object
        struct Piece
        {
            char*         p;
            size_t        n, align;
            unsigned char pat;
        };
        std::vector<std::vector<Piece>> dyn;
        unsigned n_created = 0, n_exact = 0, n_overflow = 0, n_clone_mut = 0, n_multi = 0;
        unsigned n_dyn = 0, n_dyn_refused = 0, n_dyn_nonlast = 0, n_mutate_live = 0, n_moved_objects = 0, n_assign_nonempty = 0, n_cross_assign = 0;
        int      dtors = 0;
        bool     allow_known = false;

        JointCase(Fail& f, CaseInfo& c) : fail(f), ci(c)
        {
            g_dtor_count = &dtors;
            for (int i = 0; i < 3; ++i)
            {
                slots.emplace_back(new ptr_t(leafA));
                seeds.push_back(0);
                dyn.emplace_back();
            }
        }
        size_t out_of(int owner)
        {
            return Slab::get().outstanding_of(owner);
        }

        // validates the layout of a live object
        void check_object(ptr_t& p, size_t additional)
        {
            auto*              obj = p.get();
            auto               blk = Slab::get().find_block(obj);
            if (!blk)
            {
                fail("not-block-start", "the joint object does not start at the upstream allocation");
                return;
            }
            if (blk->array || blk->size != sizeof(J) + additional || blk->req_align != alignof(J))
            {
                fail("upstream-shape", "upstream saw size " + std::to_string(blk->size) + " align "
                                           + std::to_string(blk->req_align) + ", expected sizeof(T)+additional = "
                                           + std::to_string(sizeof(J) + additional) + " at alignof(T) = "
                                           + std::to_string(alignof(J)));
                return;
            }
            const char* lo = reinterpret_cast<const char*>(obj) + sizeof(J);
            const char* hi = blk->addr + blk->bytes;
            std::vector<Range> rs;
            obj->ranges(rs);
            for (size_t sl = 0; sl < slots.size(); ++sl)
                if (slots[sl].get() == &p)
                    for (auto& d : dyn[sl])
                        rs.push_back({d.p, d.n, d.align});
            for (size_t i = 0; i < rs.size(); ++i)
            {
                if (rs[i].n == 0)
                    continue;
                if (rs[i].p < lo || rs[i].p + rs[i].n > hi)
                    fail("outside-block", "joint memory lies outside [object end, block end)");
                if (reinterpret_cast<uintptr_t>(rs[i].p) % rs[i].align != 0)
                    fail("misaligned", "joint memory is not aligned for its element type");
                for (size_t k = 0; k < i; ++k)
                    if (rs[k].n && rs[i].p < rs[k].p + rs[k].n && rs[k].p < rs[i].p + rs[i].n)
                        fail("overlap", "two joint allocations of one object overlap");
            }
            if (rs.size() >= 2 && additional > 0)
                ++n_multi;
        }

        // bytes of joint memory the object consumed (including alignment padding, also the padding
        // in front of empty arrays) — the same figure clone_joint() uses
        size_t used_bytes(ptr_t& p)
        {
            return fm::detail::get_stack(*p).capacity_used(fm::detail::get_memory(*p));
        }

        void create(size_t slot, OLeaf& leaf, size_t additional, size_t n, size_t m, bool must_fit, bool must_fail)
        {
            auto& sp = *slots[slot];
            reset(slot);
            size_t before = out_of(leaf.owner());
            int    d0     = dtors;
            try
            {
                ptr_t np(leaf, fm::joint_size(additional), n, m);
                if (must_fail)
                    fail("overrun-not-refused", "a joint request that cannot fit did not throw (object at residue "
                                                    + std::to_string(reinterpret_cast<uintptr_t>(np.get()) % 16)
                                                    + " mod 16, additional " + std::to_string(additional) + ", used "
                                                    + std::to_string(used_bytes(np)) + ")");
                sp = std::move(np);
            }
            catch (fm::out_of_fixed_memory&)
            {
                if (must_fit)
                    fail("fit-refused", "out_of_fixed_memory although the joint memory suffices (additional="
                                            + std::to_string(additional) + ")");
                if (out_of(leaf.owner()) != before)
                    fail("failed-create-leaked", "failed joint object creation did not give the block back");
                (void)d0;
                return;
            }
            catch (std::length_error&)
            {
                return; // standard container refusing the size: not the library's concern
            }
            if (fail.failed)
                return;
            if (std::getenv("VF_TRACE"))
                std::fprintf(stderr, "  create additional=%zu n=%zu m=%zu -> obj=%p used=%zu\n", additional, n, m,
                             static_cast<void*>(sp.get()), sp ? used_bytes(sp) : 0);
            if (out_of(leaf.owner()) != before + 1)
                fail("not-one-allocation", "creating a joint object made "
                                               + std::to_string(out_of(leaf.owner()) - before)
                                               + " upstream allocations");
            check_object(sp, additional);
            seeds[slot] = static_cast<unsigned char>(17 * (n_created + 1));
            sp->fill(seeds[slot]);
            ++n_created;
        }

        void reset(size_t slot)
        {
            auto& sp = *slots[slot];
            if (!sp)
                return;
            int    owner  = Slab::get().find_block(sp.get()) ? Slab::get().find_block(sp.get())->owner : 0;
            size_t before = out_of(owner);
            int    d0     = dtors;
            dyn[slot].clear();
            sp.reset();
            if (dtors != d0 + 1)
                fail("destroy-count", "reset destroyed the object " + std::to_string(dtors - d0) + " times");
            if (out_of(owner) + 1 != before)
                fail("release-count", "reset did not release exactly the object's block");
            if (Slab::get().last_error())
                fail("release-shape", Slab::get().last_error());
        }

        void op(const Op& o, unsigned kind)
        {
            if (fail.failed)
                return;
            size_t slot = o.c % 3;
            auto&  sp   = *slots[slot];
            static const size_t counts[] = {0, 1, 2, 3, 5, 8, 13, 31, 64};
            size_t n = counts[o.a % 9], m = counts[(o.a / 9) % 9];
            switch (kind)
            {
            case 0: // create with plenty of room, then measure; recreate exact-fit / one byte short
            {
                OLeaf& leaf = o.b % 2 ? leafB : leafA;
                // residue of the returned address modulo 16 is a generated input (only alignof(T) is promised)
                Slab::get().set_skew((o.b / 2) % 2 ? alignof(J) % 16 : 0);
                size_t big = 64 + n * 80 + m * 80;
                create(slot, leaf, big, n, m, true, false);
                if (fail.failed || !sp)
                    break;
                size_t used = used_bytes(sp);
                if ((o.b / 4) % 3 == 1)
                {
                    // exact fit at the same residue
                    uintptr_t res = reinterpret_cast<uintptr_t>(sp.get()) % 16;
                    Slab::get().set_skew(res);
                    create(slot, leaf, used, n, m, true, false);
                    if (sp)
                        ++n_exact;
                }
                else if ((o.b / 4) % 3 == 2 && used > 0)
                {
                    uintptr_t res = reinterpret_cast<uintptr_t>(sp.get()) % 16;
                    Slab::get().set_skew(res);
                    create(slot, leaf, used - 1, n, m, false, true);
                    ++n_overflow;
                }
                Slab::get().set_skew(0);
                break;
            }
            case 1: // additional size 0 / tiny
                Slab::get().set_skew(0);
                create(slot, leafA, o.b % 3, n, m, false, false);
                break;
            case 2: // clone
            {
                if (!sp)
                {
                    ++ci.noops;
                    break;
                }
                size_t to = (slot + 1 + o.b % 2) % 3;
                reset(to);
                OLeaf& leaf = o.b % 2 ? leafB : leafA;
                // recorded finding F17: the clone gets no alignment slack, so it only fits at the
                // same residue modulo the largest element alignment (exclusion unless probing)
                uintptr_t res = reinterpret_cast<uintptr_t>(sp.get()) % 16;
                Slab::get().set_skew(allow_known ? (res + alignof(J)) % 16 : res);
                size_t before = out_of(leaf.owner());
                try
                {
                    *slots[to] = fm::clone_joint(leaf, *sp);
                }
                catch (fm::out_of_fixed_memory&)
                {
                    fail("clone-failed", "clone_joint of a valid object threw out_of_fixed_memory");
                    break;
                }
                Slab::get().set_skew(0);
                auto& cp = *slots[to];
                if (out_of(leaf.owner()) != before + 1)
                    fail("not-one-allocation", "clone_joint made more than one upstream allocation");
                if (!cp->same(*sp))
                    fail("clone-differs", "clone does not have the contents of the original");
                seeds[to] = seeds[slot];
                // independence: mutate the clone, the original keeps its contents
                std::vector<Range> r1, r2;
                sp->ranges(r1);
                cp->ranges(r2);
                for (auto& a : r1)
                    for (auto& b : r2)
                        if (a.n && b.n && a.p < b.p + b.n && b.p < a.p + a.n)
                            fail("clone-shares-storage", "clone and original share joint memory");
                auto blk = Slab::get().find_block(cp.get());
                if (blk)
                    check_object(cp, blk->size - sizeof(J));
                // independence: remember the original's bytes, mutate the clone, compare
                std::vector<std::string> saved_bytes;
                for (auto& a : r1)
                    saved_bytes.emplace_back(a.p, a.n);
                cp->fill(static_cast<unsigned char>(seeds[to] + 91));
                for (size_t i = 0; i < r1.size(); ++i)
                    if (r1[i].n && std::memcmp(saved_bytes[i].data(), r1[i].p, r1[i].n) != 0)
                        fail("clone-not-independent", "mutating the clone changed the original");
                seeds[to] = static_cast<unsigned char>(seeds[to] + 91);
                ++n_clone_mut;
                break;
            }
            case 3: // move construct / move assign / swap between slots
            {
                size_t to = (slot + 1) % 3;
                if (o.b % 3 == 0)
                {
                    ptr_t tmp(std::move(sp));
                    if (sp)
                        fail("moved-from-nonnull", "moved-from joint_ptr still owns the object");
                    sp = std::move(tmp);
                }
                else if (o.b % 3 == 1)
                {
                    if ((o.b / 3) % 2 && *slots[to] && sp)
                    {
                        // onto a non-empty target (possibly on the other allocator): the target's old
                        // object is destroyed once and its block goes back to the allocator it came
                        // from (the slab validates the owner of every release)
                        int d0 = dtors;
                        dyn[to].clear();
                        *slots[to] = std::move(sp);
                        if (dtors != d0 + 1)
                            fail("destroy-count", "move assignment onto a non-empty joint_ptr destroyed the old object "
                                                      + std::to_string(dtors - d0) + " times");
                        ++n_assign_nonempty;
                    }
                    else
                    {
                        reset(to);
                        *slots[to] = std::move(sp);
                    }
                    std::swap(seeds[to], seeds[slot]);
                    std::swap(dyn[to], dyn[slot]);
                }
                else
                {
                    swap(*slots[to], sp);
                    std::swap(seeds[to], seeds[slot]);
                    std::swap(dyn[to], dyn[slot]);
                }
                break;
            }
            case 4:
                if (o.b % 2)
                    reset(slot);
                else if (sp)
                {
                    // = nullptr
                    int d0 = dtors;
                    dyn[slot].clear();
                    sp     = nullptr;
                    if (dtors != d0 + 1)
                        fail("destroy-count", "= nullptr destroyed the object " + std::to_string(dtors - d0) + " times");
                }
                break;
            case 5: // allocation through joint_allocator(object) after construction
            {
                if (!sp)
                {
                    ++ci.noops;
                    break;
                }
                static const size_t dsz[] = {1, 2, 3, 4, 5, 7, 8, 12, 16, 24, 33, 64, 100};
                size_t size = dsz[o.a % 13], align = size_t(1) << (o.b % 5);
                auto   blk = Slab::get().find_block(sp.get());
                if (!blk)
                    break;
                auto&     st  = fm::detail::get_stack(*sp);
                uintptr_t top = reinterpret_cast<uintptr_t>(st.top());
                uintptr_t end = reinterpret_cast<uintptr_t>(blk->addr + blk->bytes);
                uintptr_t at  = (top + align - 1) & ~uintptr_t(align - 1);
                bool      fits = at <= end && size <= end - at;
                auto      snap = snapshot(slot);
                fm::joint_allocator a(*sp);
                void*               mem   = nullptr;
                bool                threw = false;
                try
                {
                    mem = (o.b / 5) % 2 ? fm::allocator_traits<fm::joint_allocator>::allocate_array(a, 1, size, align) :
                                          a.allocate_node(size, align);
                }
                catch (fm::out_of_fixed_memory&)
                {
                    threw = true;
                }
                if (threw && fits)
                    fail("fit-refused", "joint_allocator refused " + std::to_string(size) + " bytes at alignment "
                                            + std::to_string(align) + " although " + std::to_string(end - top)
                                            + " bytes are left");
                else if (!threw && !fits)
                    fail("overrun-not-refused", "joint_allocator served " + std::to_string(size) + " bytes at alignment "
                                                    + std::to_string(align) + " with only " + std::to_string(end - top)
                                                    + " bytes left");
                else if (!threw && !mem)
                    fail("null", "joint_allocator returned null");
                else if (!threw)
                {
                    unsigned char pat = static_cast<unsigned char>(0x31 + 7 * n_dyn);
                    dyn[slot].push_back({static_cast<char*>(mem), size, align, pat});
                    check_object(sp, blk->size - sizeof(J)); // inside the block, aligned, disjoint from every live piece
                    if (!fail.failed)
                        std::memset(mem, pat, size);
                    ++n_dyn;
                }
                else
                    ++n_dyn_refused;
                if (!fail.failed)
                    compare(slot, snap, "an allocation");
                break;
            }
            case 6: // release of any live piece (only the last one can really be reclaimed)
            {
                if (!sp || dyn[slot].empty())
                {
                    ++ci.noops;
                    break;
                }
                size_t idx = o.a % dyn[slot].size();
                Piece  d   = dyn[slot][idx];
                if (!check_pattern(slot))
                    break;
                dyn[slot].erase(dyn[slot].begin() + long(idx));
                bool others_live = !dyn[slot].empty();
                auto snap        = snapshot(slot);
                fm::joint_allocator a(*sp);
                if (o.b % 2)
                    fm::allocator_traits<fm::joint_allocator>::deallocate_array(a, d.p, 1, d.n, d.align);
                else
                    a.deallocate_node(d.p, d.n, d.align);
                compare(slot, snap, "the release of another piece");
                if (others_live && idx != dyn[slot].size())
                    ++n_dyn_nonlast;
                break;
            }
            case 7: // container operations of the object itself while pieces are live
            {
                if (!sp)
                {
                    ++ci.noops;
                    break;
                }
                if (!check_pattern(slot))
                    break;
                if (!sp->mutate(o.a, o.b))
                {
                    ++ci.noops;
                    break;
                }
                auto blk = Slab::get().find_block(sp.get());
                if (blk)
                    check_object(sp, blk->size - sizeof(J));
                check_pattern(slot);
                sp->fill(seeds[slot]);
                check_pattern(slot);
                if (!dyn[slot].empty())
                    ++n_mutate_live;
                break;
            }
            case 8: // a new joint object move-constructed from a live one (members moved with the new allocator)
            {
                if (!sp)
                {
                    ++ci.noops;
                    break;
                }
                size_t to = (slot + 1 + o.b % 2) % 3;
                reset(to);
                if (fail.failed)
                    break;
                OLeaf& leaf = o.b % 2 ? leafB : leafA;
                auto   blk  = Slab::get().find_block(sp.get());
                if (!blk)
                    break;
                // room for the source's pieces plus alignment padding the moved members may need anew
                size_t additional = blk->size - sizeof(J) + 64;
                uintptr_t res     = reinterpret_cast<uintptr_t>(sp.get()) % 16;
                Slab::get().set_skew(res);
                std::vector<long> before;
                {
                    std::vector<Range> rs;
                    sp->ranges(rs);
                    for (auto& r : rs)
                        before.push_back(long(r.n));
                }
                try
                {
                    *slots[to] = ptr_t(leaf, fm::joint_size(additional), std::move(*sp));
                }
                catch (fm::out_of_fixed_memory&)
                {
                    Slab::get().set_skew(0);
                    ++ci.noops; // a clean refusal (how much room a move needs is not specified)
                    break;
                }
                Slab::get().set_skew(0);
                auto& np = *slots[to];
                check_object(np, additional); // every piece of the new object lies in the new object's block
                if (fail.failed)
                    break;
                seeds[to] = seeds[slot];
                // the source object stays alive (moved-from) until its owner is reset: do it now and
                // look at the new object again - it must not depend on the source's block
                auto saved = snapshot(to);
                reset(slot);
                if (!fail.failed)
                    compare(to, saved, "destroying the moved-from source object");
                if (!fail.failed)
                    np->fill(seeds[to]);
                ++n_moved_objects;
                break;
            }
            case 9: // container members assigned across two live joint objects
            {
                size_t from = (slot + 1 + o.b % 2) % 3;
                auto&  fp   = *slots[from];
                if (!joint_assignable<J>::value)
                {
                    ++ci.noops;
                    break;
                }
                // make sure both objects exist (on generated allocators, with generated contents)
                Slab::get().set_skew(0);
                if (!sp)
                    create(slot, o.b % 2 ? leafB : leafA, 64 + n * 80 + m * 80, n, m, true, false);
                if (!fp && !fail.failed)
                    create(from, (o.b / 2) % 2 ? leafB : leafA, 64 + m * 80 + n * 80, m, n, true, false);
                if (fail.failed || !sp || !fp)
                    break;
                if (!check_pattern(slot) || !check_pattern(from))
                    break;
                if (!joint_assign(*sp, *fp, o.a))
                {
                    ++ci.noops;
                    break;
                }
                for (size_t s2 : {slot, from})
                {
                    auto blk = Slab::get().find_block(slots[s2]->get());
                    if (blk)
                        check_object(*slots[s2], blk->size - sizeof(J)); // each object's pieces in its own block
                }
                if (fail.failed)
                    break;
                check_pattern(slot);
                check_pattern(from);
                sp->fill(seeds[slot]);
                fp->fill(seeds[from]);
                if (o.b % 3 == 0)
                {
                    // the target must not depend on the source object's block
                    auto saved = snapshot(slot);
                    reset(from);
                    if (!fail.failed)
                        compare(slot, saved, "destroying the object whose member was assigned from");
                    if (!fail.failed)
                        sp->fill(seeds[slot]);
                }
                ++n_cross_assign;
                break;
            }
            default:
                ++ci.noops;
            }
            if (!fail.failed && Slab::get().last_error())
                fail("release-shape", Slab::get().last_error());
        }
        // bytes of every live piece of the object in a slot (members' ranges + later pieces)
        std::vector<std::string> snapshot(size_t slot)
        {
            std::vector<Range> rs;
            (*slots[slot])->ranges(rs);
            for (auto& d : dyn[slot])
                rs.push_back({d.p, d.n, d.align});
            std::vector<std::string> out;
            for (auto& r : rs)
                out.emplace_back(r.p, r.n);
            return out;
        }
        void compare(size_t slot, const std::vector<std::string>& snap, const char* what)
        {
            std::vector<Range> rs;
            (*slots[slot])->ranges(rs);
            for (auto& d : dyn[slot])
                rs.push_back({d.p, d.n, d.align});
            for (size_t i = 0; i < rs.size() && i < snap.size(); ++i)
                if (rs[i].n == snap[i].size() && rs[i].n && std::memcmp(rs[i].p, snap[i].data(), rs[i].n) != 0)
                {
                    fail("live-memory-changed", std::string(what) + " changed the bytes of a live joint allocation (piece "
                                                    + std::to_string(i) + " of " + std::to_string(rs.size()) + ")");
                    return;
                }
        }
        bool check_pattern(size_t slot)
        {
            for (auto& d : dyn[slot])
                for (size_t i = 0; i < d.n; ++i)
                    if (static_cast<unsigned char>(d.p[i]) != d.pat)
                    {
                        fail("live-memory-changed", "a live piece obtained from joint_allocator lost its contents");
                        return false;
                    }
            return true;
        }
        void finish()
        {
            for (size_t i = 0; i < 3 && !fail.failed; ++i)
                reset(i);
            if (!fail.failed && (out_of(21) || out_of(22)))
                fail("leak", "joint blocks left outstanding");
            ci.nontrivial = n_multi > 0 || n_exact > 0 || n_overflow > 0 || n_clone_mut > 0 || n_dyn_nonlast > 0
                            || n_mutate_live > 0 || n_moved_objects > 0 || n_cross_assign > 0;
            if (n_dyn)
                ci.classes.insert("post-construction-allocation");
            if (n_dyn_refused)
                ci.classes.insert("post-construction-refused");
            if (n_dyn_nonlast)
                ci.classes.insert("release-not-last");
            if (n_mutate_live)
                ci.classes.insert("container-op-with-live-pieces");
            if (n_moved_objects)
                ci.classes.insert("object-moved-with-allocator");
            if (n_assign_nonempty)
                ci.classes.insert("move-assign-onto-non-empty");
            if (n_cross_assign)
                ci.classes.insert("member-assigned-across-objects");
            if (n_exact)
                ci.classes.insert("exact-fit");
            if (n_overflow)
                ci.classes.insert("one-byte-short");
            if (n_clone_mut)
                ci.classes.insert("clone+mutate");
            if (n_multi)
                ci.classes.insert("multi-member");
            ci.counters["objects_created"] += n_created;
        }
    };

    template <class J>
    Verdict run_c11(const char* name, const Program& p, CaseInfo& ci)
    {
        Fail f;
        f.prop     = "C11";
        f.subject  = name;
        ci.subject = name;
        {
            JointCase<J> jc(f, ci);
            jc.allow_known = vf::allow_known("F17");
            for (auto& op : p.ops)
                jc.op(op, op.kind);
            if (!f.failed)
                jc.finish();
            if (f.failed)
            {
                for (auto& s : jc.slots)
                    (void)s.release();
            }
        }
        return f.failed ? f.v : Verdict::pass();
    }

    //=== C20 ===//
    enum
    {
        H_unique,
        H_unique_array,
        H_shared,
        H_unique_array_noexcept,
        H_joint_size,
        H_joint_size_value,
        H_joint_ilist,
        H_joint_range,
        H_joint_input_range,
        H_joint_copy,
        H_joint_move,
        H_clone,
        H_joint_retry,
        H__count
    };
    const char* hnames[H__count] = {"allocate_unique", "allocate_unique_array", "allocate_shared",
                                    "allocate_unique_array_noexcept", "joint_array_size",
                                    "joint_array_size_value", "joint_array_ilist", "joint_array_range",
                                    "joint_array_input_range", "joint_array_copy", "joint_array_move",
                                    "clone_joint", "joint_array_retry_exact_fit"};

    struct C20
    {
        Fail&     fail;
        CaseInfo& ci;
        OLeaf     leaf{31};
        OMinLeaf  minleaf{31}; // same owner id: the balance checks cover both
        bool      use_min = false;
        Ledger    ledger;
        unsigned  n_fault_first = 0, n_fault_later = 0, n_ok = 0;
        bool      allow_known = false;

        C20(Fail& f, CaseInfo& c) : fail(f), ci(c)
        {
            L = &ledger;
        }

        unsigned armed_ticket = 0;
        void arm(unsigned k)
        {
            ledger.fail_at = k ? ledger.creations + k : 0;
            armed_ticket   = ledger.fail_at;
        }
        // runs helper h once (the owner dies before it returns); the k-th element creation of the
        // faultable part throws (k == 0: none)
        void invoke(unsigned h, size_t n, const std::vector<Boom>& src, unsigned k)
        {
            switch (h)
            {
            case H_unique:
            {
                // the constructor selected by the arguments: converting, default, copy, move; for an
                // element type all of whose constructors may throw and for one with a noexcept default
                ledger.fail_at = 0;
                Boom  b1(9u), b2(10u);
                Boom2 c1(9u), c2(10u);
                arm(k);
                switch (n % 8)
                {
                case 0:
                    (void)fm::allocate_unique<Boom>(leaf, 5u);
                    break;
                case 1:
                    (void)fm::allocate_unique<Boom>(leaf);
                    break;
                case 2:
                    (void)fm::allocate_unique<Boom>(leaf, static_cast<const Boom&>(b1));
                    break;
                case 3:
                    (void)fm::allocate_unique<Boom>(leaf, std::move(b2));
                    break;
                case 4:
                    (void)fm::allocate_unique<Boom2>(leaf, 5u);
                    break;
                case 5:
                    (void)fm::allocate_unique<Boom2>(leaf);
                    break;
                case 6:
                    (void)fm::allocate_unique<Boom2>(leaf, static_cast<const Boom2&>(c1));
                    break;
                default:
                    (void)fm::allocate_unique<Boom2>(leaf, std::move(c2));
                }
                ledger.fail_at = 0;
                break;
            }
            case H_unique_array:
            {
                arm(k);
                if (use_min)
                    (void)fm::allocate_unique<Boom[]>(minleaf, n);
                else
                    (void)fm::allocate_unique<Boom[]>(leaf, n);
                break;
            }
            case H_shared:
            {
                ledger.fail_at = 0;
                Boom  b1(9u), b2(10u);
                Boom2 c1(9u), c2(10u);
                arm(k);
                switch (n % 8)
                {
                case 0:
                    (void)fm::allocate_shared<Boom>(leaf, 5u);
                    break;
                case 1:
                    (void)fm::allocate_shared<Boom>(leaf);
                    break;
                case 2:
                    (void)fm::allocate_shared<Boom>(leaf, static_cast<const Boom&>(b1));
                    break;
                case 3:
                    (void)fm::allocate_shared<Boom>(leaf, std::move(b2));
                    break;
                case 4:
                    (void)fm::allocate_shared<Boom2>(leaf, 5u);
                    break;
                case 5:
                    (void)fm::allocate_shared<Boom2>(leaf);
                    break;
                case 6:
                    (void)fm::allocate_shared<Boom2>(leaf, static_cast<const Boom2&>(c1));
                    break;
                default:
                    (void)fm::allocate_shared<Boom2>(leaf, std::move(c2));
                }
                ledger.fail_at = 0;
                break;
            }
            case H_unique_array_noexcept:
            {
                if (use_min)
                    (void)fm::allocate_unique<BoomNE[]>(minleaf, n);
                else
                    (void)fm::allocate_unique<BoomNE[]>(leaf, n);
                break;
            }
            case H_joint_size:
            case H_joint_size_value:
            case H_joint_ilist:
            case H_joint_range:
            case H_joint_input_range:
            {
                Args   a{h - H_joint_size, n, &src, false, nullptr};
                size_t cnt = a.form == 2 ? n % 5 : n;
                arm(k);
                fm::joint_ptr<JBoom, OLeaf> p(leaf, fm::joint_size(cnt * sizeof(Boom)), a);
                break;
            }
            default:
            {
                // copy / move / clone: the source object is built without faults
                ledger.fail_at = 0;
                Args a{3, n, &src, false, nullptr};
                fm::joint_ptr<JBoom, OLeaf> srcp(leaf, fm::joint_size(n * sizeof(Boom)), a);
                arm(k);
                if (h == H_clone)
                {
                    auto c = fm::clone_joint(leaf, *srcp);
                }
                else if (h == H_joint_copy)
                {
                    fm::joint_ptr<JBoom, OLeaf> c(leaf, fm::joint_size(n * sizeof(Boom)),
                                                  static_cast<const JBoom&>(*srcp));
                }
                else
                {
                    fm::joint_ptr<JBoom, OLeaf> c(leaf, fm::joint_size(n * sizeof(Boom)), std::move(*srcp));
                }
                ledger.fail_at = 0;
            }
            }
            ledger.fail_at = 0;
        }

        void op(const Op& o)
        {
            if (fail.failed)
                return;
            unsigned h = o.kind;
            size_t   n = o.a % 17; // 0..16
            use_min    = (o.c / 2) % 2 == 1;
            if (use_min)
                ci.classes.insert("node-only-allocator");
            if (h == H_joint_retry)
            {
                op_retry(o, n);
                return;
            }
            // source elements (constructed without faults)
            ledger.fail_at = 0;
            std::vector<Boom> src;
            src.reserve(20);
            for (unsigned i = 0; i < 17; ++i)
                src.emplace_back(100 + i);
            // how many creations does the faultable part perform? measured by a fault-free run
            size_t live0 = ledger.alive.size(), out0 = Slab::get().outstanding_of(31);
            unsigned c0 = ledger.creations;
            try
            {
                invoke(h, n, src, 0);
            }
            catch (...)
            {
                fail("throw-without-fault", std::string(hnames[h]) + " threw although no fault was injected");
                return;
            }
            unsigned total = ledger.creations - c0;
            if (h == H_joint_copy || h == H_joint_move || h == H_clone)
                total -= unsigned(n); // the source object's own elements are not part of the helper
            if (h == H_unique || h == H_shared)
                total -= 4; // the four source objects for the copy / move forms
            if (ledger.alive.size() != live0)
                fail("success-unbalanced", std::string(hnames[h]) + ": objects still alive after the owner died");
            if (Slab::get().outstanding_of(31) != out0)
                fail("success-leak", std::string(hnames[h]) + ": memory still allocated after the owner died");
            if (ledger.error)
                fail("ledger", ledger.what);
            if (fail.failed)
                return;
            ++n_ok;
            if (total == 0 || h == H_unique_array_noexcept)
                return;
            // fault at the k-th creation (every index is reachable; first and last are favoured)
            unsigned k = 1 + (o.b / 7) % total;
            if (o.b % 7 == 0)
                k = 1;
            if (o.b % 7 == 1)
                k = total;
            bool threw = false;
            try
            {
                invoke(h, n, src, k);
            }
            catch (boom_fail& f)
            {
                threw = true;
                if (f.ticket != armed_ticket)
                    fail("exception-changed", "a different exception object arrived than the one thrown");
            }
            catch (...)
            {
                fail("exception-changed", std::string(hnames[h]) + ": the constructor's exception did not propagate unchanged");
                ledger.fail_at = 0;
                return;
            }
            ledger.fail_at = 0;
            if (!threw)
            {
                fail("fault-swallowed", std::string(hnames[h]) + ": injected constructor failure #" + std::to_string(k)
                                            + " of " + std::to_string(total) + " did not propagate");
                return;
            }
            if (ledger.error)
                fail("ledger", std::string(hnames[h]) + ": " + ledger.what);
            else if (ledger.alive.size() != live0)
                fail("not-rolled-back", std::string(hnames[h]) + ": " + std::to_string(long(ledger.alive.size()) - long(live0))
                                            + " element(s) still alive after the failure at #" + std::to_string(k));
            else if (Slab::get().outstanding_of(31) != out0)
                fail("memory-not-returned", std::string(hnames[h]) + ": memory of the failed creation was not given back");
            else if (Slab::get().last_error())
                fail("release-shape", Slab::get().last_error());
            if (fail.failed)
                return;
            (k == 1 ? n_fault_first : n_fault_later)++;
            // the allocator remains usable: same request, no fault
            try
            {
                invoke(h, n, src, 0);
            }
            catch (...)
            {
                fail("unusable-after-failure", std::string(hnames[h]) + " failed after an earlier constructor failure");
            }
        }

        // joint_array built in a constructor body that catches the failure and retries, in an
        // exact-fit object (F18: failure of the first element left the memory consumed)
        void op_retry(const Op& o, size_t n)
        {
            if (n == 0)
                n = 1;
            static const unsigned forms[] = {0, 3, 5, 6}; // size / range / copy / move of another array
            unsigned form = forms[o.c % 4];
            ledger.fail_at = 0;
            std::vector<Boom> src;
            src.reserve(20);
            for (unsigned i = 0; i < 17; ++i)
                src.emplace_back(100 + i);
            unsigned k = 1 + o.b % unsigned(n);
            size_t live0 = ledger.alive.size(), out0 = Slab::get().outstanding_of(31);
            bool   retried = false;
            // forms 5 / 6: a second joint object (built without faults) whose array is copied / moved
            std::unique_ptr<fm::joint_ptr<JBoom, OLeaf>> other;
            if (form >= 5)
            {
                Args oa{3, n, &src, false, nullptr};
                other.reset(new fm::joint_ptr<JBoom, OLeaf>(leaf, fm::joint_size(n * sizeof(Boom)), oa));
            }
            ledger.fail_at = ledger.creations + k;
            try
            {
                Args a{form, n, &src, true, &retried};
                if (other)
                    a.other = &(*other)->arr();
                fm::joint_ptr<JBoom, OLeaf> p(leaf, fm::joint_size(n * sizeof(Boom)), a);
                if (p->arr().size() != n)
                    fail("retry-size", "array built on retry has the wrong size");
            }
            catch (fm::out_of_fixed_memory&)
            {
                fail("retry-no-memory", "after a constructor failure at element #" + std::to_string(k)
                                            + " the joint memory was not released: the retry in the exact-fit object failed");
            }
            catch (...)
            {
                fail("exception-changed", "unexpected exception from the retry form");
            }
            ledger.fail_at = 0;
            other.reset();
            if (!fail.failed && !retried)
                fail("fault-swallowed", "the injected failure never reached the constructor body");
            if (!fail.failed && (ledger.alive.size() != live0 || ledger.error))
                fail("not-rolled-back", ledger.error ? ledger.what : "elements alive after the owner died");
            if (!fail.failed && Slab::get().outstanding_of(31) != out0)
                fail("memory-not-returned", "joint block not released");
            (k == 1 ? n_fault_first : n_fault_later)++;
        }
    };

    Verdict run_c20(const Program& p, CaseInfo& ci)
    {
        Fail f;
        f.prop     = "C20";
        f.subject  = "helpers";
        ci.subject = "helpers";
        C20 c(f, ci);
        c.allow_known = false;
        for (auto& op : p.ops)
        {
            if (op.kind < H__count)
                f.subject = hnames[op.kind];
            c.op(op);
        }
        ci.nontrivial = c.n_fault_first + c.n_fault_later > 0;
        if (c.n_fault_first)
            ci.classes.insert("fault-at-first-element");
        if (c.n_fault_later)
            ci.classes.insert("fault-at-later-element");
        ci.counters["helper_runs_ok"] += c.n_ok;
        ci.counters["faults_injected"] += c.n_fault_first + c.n_fault_later;
        return f.failed ? f.v : Verdict::pass();
    }

    struct ObjTarget : vf::Target
    {
        const char* name() const override
        {
            return "obj";
        }
        bool spec(const std::string& property, Spec& out) const override
        {
            out.nparams = 4;
            if (property == "C20")
            {
                out.max_ops = 24;
                out.kinds.clear();
                for (unsigned h = 0; h < H__count; ++h)
                    out.kinds.push_back({hnames[h], h == H_unique_array_noexcept ? 1u : 3u});
                out.rule = "a constructor failure injected at element index 0 or at an index >= 1 of an array of length >= 2 "
                           "(every helper / joint_array constructor form, lengths 0..16)";
                return true;
            }
            if (property == "C11")
            {
                out.max_ops = 30;
                out.kinds   = {{"create_measure", 6}, {"create_small", 2}, {"clone", 4}, {"move", 3}, {"reset", 2},
                               {"dyn_alloc", 7}, {"dyn_release", 4}, {"container_op", 4}, {"move_object", 4},
                               {"cross_assign", 4}};
                out.rule    = "additional size > 0 with >= 2 members, or an exact-fit / one-byte-short creation, or a "
                              "clone followed by mutation, or the release of a piece that is not the last allocation "
                              "while others are live, or a container operation while later pieces are live, or a joint object "
                              "move-constructed from another (members moved with the new allocator), or a container member "
                              "copy/move-assigned from the member of another live joint object";
                return true;
            }
            return false;
        }
        void init(const std::string&) override
        {
            Slab::get().map();
        }
        Verdict run(const Spec& spec, const Program& p, CaseInfo& ci) override
        {
            static const size_t gaps[] = {64, 16, 256, 4096};
            auto P = [&](size_t i) { return i < p.params.size() ? p.params[i] : 0u; };
            Slab::get().reset(P(1), gaps[P(2) % 4]);
            Slab::get().clear_error();
            if (spec.property == "C20")
                return run_c20(p, ci);
            using E1  = El<1, 1>;
            using E2  = El<2, 2>;
            using E4  = El<4, 4>;
            using E8  = El<8, 8>;
            using E16 = El<16, 16>;
            using E3  = El<3, 1>;
            switch (P(0) % 20)
            {
            case 0:
                return run_c11<JA<E1>>("JA<1,1>", p, ci);
            case 1:
                return run_c11<JA<E2>>("JA<2,2>", p, ci);
            case 2:
                return run_c11<JA<E4>>("JA<4,4>", p, ci);
            case 3:
                return run_c11<JA<E8>>("JA<8,8>", p, ci);
            case 4:
                return run_c11<JA<E16>>("JA<16,16>", p, ci);
            case 5:
                return run_c11<JA<E3>>("JA<3,1>", p, ci);
            case 6:
                return run_c11<JB<E1, E8>>("JB<1,8>", p, ci);
            case 7:
                return run_c11<JB<E8, E2>>("JB<8,2>", p, ci);
            case 8:
                return run_c11<JB<E3, E16>>("JB<3,16>", p, ci);
            case 9:
                return run_c11<JB<E16, E4>>("JB<16,4>", p, ci);
            case 10:
                return run_c11<JV<E4>>("JV<4>", p, ci);
            case 11:
                return run_c11<JV<E16>>("JV<16>", p, ci);
            case 12:
                return run_c11<JV<E3>>("JV<3>", p, ci);
            case 14:
                return run_c11<JR<E1>>("JR<1,1>", p, ci);
            case 15:
                return run_c11<JR<E4>>("JR<4,4>", p, ci);
            case 16:
                return run_c11<JR<E3>>("JR<3,1>", p, ci);
            case 17:
                return run_c11<JBR<E1, E4>>("JBR<1,4>", p, ci);
            case 18:
                return run_c11<JBR<E3, E8>>("JBR<3,8>", p, ci);
            case 19:
                return run_c11<JBR<E1, E16>>("JBR<1,16>", p, ci);
            default:
                return run_c11<JM>("JM", p, ci);
            }
        }
    };
} // namespace

vf::Target& vf::the_target()
{
    static ObjTarget t;
    return t;
}
