// hist_stack.hpp — memory_stack, iteration_allocator, static_allocator, low-level allocator subjects
#pragma once
#include <foonathan/memory/heap_allocator.hpp>
#include <foonathan/memory/iteration_allocator.hpp>
#include <foonathan/memory/malloc_allocator.hpp>
#include <foonathan/memory/memory_stack.hpp>
#include <foonathan/memory/new_allocator.hpp>
#include <foonathan/memory/static_allocator.hpp>
#include <foonathan/memory/temporary_allocator.hpp>
#include <foonathan/memory/virtual_memory.hpp>

#include "hist.hpp"

namespace hist
{
    inline size_t stack_block_for_class(uint32_t c)
    {
        static const size_t t[] = {64, 100, 128, 200, 256, 500, 1024, 1025, 2048, 4096, 5000, 8192};
        return t[c % (sizeof t / sizeof t[0])];
    }

    template <class Up>
    class StackSubj : public Holder<fm::memory_stack<typename Up::type>, StackSubj<Up>>
    {
    public:
        using T       = fm::memory_stack<typename Up::type>;
        using Base    = Holder<T, StackSubj<Up>>;
        using traits  = fm::allocator_traits<T>;
        using ctraits = fm::composable_allocator_traits<T>;
        using marker  = typename T::marker;

        explicit StackSubj(Ctx& c) : Base(c)
        {
            this->fam        = F_STACK;
            this->name       = std::string("STK/") + Up::info.name;
            this->up         = Up::info;
            this->releasable = false;
            size_t wanted    = T::min_block_size(stack_block_for_class(c.block_class))
                            + (c.block_extra % 4 ? c.block_extra % 64 : 0);
            block_size_  = legal_block_size<Up>(wanted);
            c.block_size = block_size_;
            this->init(c.obj_above);
        }
        T* fresh(void* st, int owner)
        {
            return construct_with_upstream<Up, T>(st, this->ctx_, owner, block_size_);
        }
        void use_a_little(T& t)
        {
            // leave the target with a used block, a *cached* block and a live allocation:
            // grow into a second block, unwind below the boundary, allocate again
            auto m = t.top();
            (void)t.allocate(block_size_ / 2, 1);
            (void)t.allocate(block_size_ / 2, 1);
            t.unwind(m);
            (void)t.allocate(24, 8);
        }
        void after_move()
        {
            markers_.clear();
            stale_.clear();
        }

        void* alloc(const Req& r) override
        {
            T& t = this->cur();
            if (r.iface == MEMBER)
                return t.allocate(r.bytes(), r.align);
            return r.array ? traits::allocate_array(t, r.count, r.size, r.align) :
                             traits::allocate_node(t, r.size, r.align);
        }
        void* try_alloc(const Req& r) override
        {
            T& t = this->cur();
            return r.array ? ctraits::try_allocate_array(t, r.count, r.size, r.align) :
                             ctraits::try_allocate_node(t, r.size, r.align);
        }
        void dealloc(void* p, const Req& r) override
        {
            T& t = this->cur();
            if (r.iface == MEMBER)
                return;
            if (r.array)
                traits::deallocate_array(t, p, r.count, r.size, r.align);
            else
                traits::deallocate_node(t, p, r.size, r.align);
        }
        bool try_dealloc(void* p, const Req& r) override
        {
            T& t = this->cur();
            return r.array ? ctraits::try_deallocate_array(t, p, r.count, r.size, r.align) :
                             ctraits::try_deallocate_node(t, p, r.size, r.align);
        }
        size_t max_node() override
        {
            return traits::max_node_size(this->cur());
        }
        size_t max_array() override
        {
            return traits::max_array_size(this->cur());
        }
        size_t max_align() override
        {
            return traits::max_alignment(this->cur());
        }
        void caps(std::vector<size_t>& out, size_t) override
        {
            out.clear();
            out.push_back(this->cur().capacity_left());
            out.push_back(this->cur().next_capacity());
        }
        int take_marker() override
        {
            markers_.push_back(this->cur().top());
            return int(markers_.size()) - 1;
        }
        bool unwind(int i) override
        {
            do_unwind(markers_[size_t(i)]);
            for (size_t k = size_t(i) + 1; k < markers_.size() && stale_.size() < 8; ++k)
                stale_.push_back(markers_[k]); // invalid from now on (used by C16 only)
            markers_.erase(markers_.begin() + i + 1, markers_.end());
            return true;
        }
        size_t stale_markers() override
        {
            return stale_.size();
        }
        bool stale_above_top(size_t i) override
        {
            return stale_[i] > this->cur().top();
        }
        void unwind_stale(size_t i) override
        {
            do_unwind(stale_[i]);
        }
        void set_unwind_mode(unsigned m) override
        {
            mode_ = m % 6;
        }
        int marker_cmp(int i, int j) override
        {
            auto &a = markers_[size_t(i)], &b = markers_[size_t(j)];
            return (a < b ? 1 : 0) | (a <= b ? 2 : 0) | (a == b ? 4 : 0) | (a != b ? 8 : 0)
                   | (a >= b ? 16 : 0) | (a > b ? 32 : 0);
        }
        bool shrink_to_fit() override
        {
            this->cur().shrink_to_fit();
            return true;
        }

    private:
        void do_unwind(marker m)
        {
            using unwinder = fm::memory_stack_raii_unwind<T>;
            T& st = this->cur();
            switch (mode_)
            {
            case 0:
                st.unwind(m);
                break;
            case 1:
            {
                unwinder u(st, m);
                break;
            }
            case 2:
            {
                unwinder u(st, m);
                u.unwind(); // the destructor then unwinds to the same place again (a no-op)
                break;
            }
            case 3:
            {
                unwinder u1(st, m);
                unwinder u2(std::move(u1));
                if (u1.will_unwind() || !u2.will_unwind() || !(u2.get_marker() == m) || &u2.get_stack() != &st)
                    this->complaint_ = "move construction of memory_stack_raii_unwind did not transfer the location";
                break;
            }
            case 4:
            {
                auto t0 = st.top();
                {
                    unwinder u(st, m);
                    u.release();
                    if (u.will_unwind())
                        this->complaint_ = "will_unwind() is true after release()";
                }
                if (!(st.top() == t0))
                    this->complaint_ = "a released memory_stack_raii_unwind unwound the stack";
                st.unwind(m);
                break;
            }
            default:
            {
                unwinder u2(st); // saves the current top: unwinding to it changes nothing
                unwinder u1(st, m);
                u2 = std::move(u1);
                if (u1.will_unwind() || !u2.will_unwind() || !(u2.get_marker() == m))
                    this->complaint_ = "move assignment of memory_stack_raii_unwind did not transfer the location";
            }
            }
        }
        unsigned            mode_ = 0;
        size_t              block_size_;
        std::vector<marker> markers_, stale_;
    };

    template <std::size_t N, class Up>
    class IterSubj
    : public Holder<fm::iteration_allocator<N, typename Up::type>, IterSubj<N, Up>>
    {
    public:
        using T       = fm::iteration_allocator<N, typename Up::type>;
        using Base    = Holder<T, IterSubj<N, Up>>;
        using traits  = fm::allocator_traits<T>;
        using ctraits = fm::composable_allocator_traits<T>;

        explicit IterSubj(Ctx& c) : Base(c)
        {
            this->fam        = F_ITER;
            this->name       = "IT" + std::to_string(N) + "/" + Up::info.name;
            this->up         = Up::info;
            this->releasable = false;
            // any block size is valid; cover size mod N uniformly
            size_t wanted = stack_block_for_class(c.block_class) + c.block_extra % 97;
            if (c.block_class % 5 == 4)
                wanted = 1 + c.block_extra % 64; // tiny blocks, including size < N
            block_size_  = legal_block_size<Up>(wanted);
            c.block_size = block_size_;
            this->init(c.obj_above);
        }
        T* fresh(void* st, int owner)
        {
            return construct_with_upstream<Up, T>(st, this->ctx_, owner, block_size_);
        }
        void use_a_little(T& t)
        {
            (void)t.try_allocate(8, 8);
        }

        void* alloc(const Req& r) override
        {
            T& t = this->cur();
            if (r.iface == MEMBER)
                return t.allocate(r.bytes(), r.align);
            return r.array ? traits::allocate_array(t, r.count, r.size, r.align) :
                             traits::allocate_node(t, r.size, r.align);
        }
        void* try_alloc(const Req& r) override
        {
            T& t = this->cur();
            return r.array ? ctraits::try_allocate_array(t, r.count, r.size, r.align) :
                             ctraits::try_allocate_node(t, r.size, r.align);
        }
        void dealloc(void* p, const Req& r) override
        {
            T& t = this->cur();
            if (r.iface == MEMBER)
                return;
            if (r.array)
                traits::deallocate_array(t, p, r.count, r.size, r.align);
            else
                traits::deallocate_node(t, p, r.size, r.align);
        }
        bool try_dealloc(void* p, const Req& r) override
        {
            T& t = this->cur();
            return r.array ? ctraits::try_deallocate_array(t, p, r.count, r.size, r.align) :
                             ctraits::try_deallocate_node(t, p, r.size, r.align);
        }
        size_t max_node() override
        {
            return traits::max_node_size(this->cur());
        }
        size_t max_array() override
        {
            return traits::max_array_size(this->cur());
        }
        size_t max_align() override
        {
            return traits::max_alignment(this->cur());
        }
        void caps(std::vector<size_t>& out, size_t) override
        {
            out.clear();
            out.push_back(this->cur().capacity_left());
            for (size_t i = 0; i < N; ++i)
                out.push_back(this->cur().capacity_left(i));
        }
        bool next_iteration() override
        {
            this->cur().next_iteration();
            return true;
        }
        size_t iteration_info(int what) override
        {
            if (what == 0)
                return this->cur().cur_iteration();
            if (what == 1)
                return T::max_iterations();
            if (what == 2)
                return N;
            return 0;
        }

    private:
        size_t block_size_;
    };

    // static_allocator: minimal RawAllocator, not arena based
    class StaticSubj : public ISubject
    {
    public:
        using T      = fm::static_allocator;
        using traits = fm::allocator_traits<T>;
        explicit StaticSubj(Ctx& c)
        {
            fam            = F_STATIC;
            name           = "STAT";
            has_upstream   = false;
            has_member     = true;
            has_composable = false;
            releasable     = false;
            movable        = false;
            owner          = c.new_owner();
            void* st       = Slab::get().allocate(owner + static_owner_offset, false, 1,
                                                  sizeof(storage_t), alignof(storage_t));
            storage_       = ::new (st) storage_t;
            obj_ = ::new (Slab::get().object_storage(c.obj_above, sizeof(T), alignof(T))) T(*storage_);
            c.block_size   = sizeof(storage_t);
        }
        ~StaticSubj() override
        {
            destroy_all();
        }
        void* alloc(const Req& r) override
        {
            if (r.iface == MEMBER)
                return obj_->allocate_node(r.bytes(), r.align);
            return r.array ? traits::allocate_array(*obj_, r.count, r.size, r.align) :
                             traits::allocate_node(*obj_, r.size, r.align);
        }
        void* try_alloc(const Req&) override
        {
            return nullptr;
        }
        void dealloc(void* p, const Req& r) override
        {
            if (r.iface == MEMBER)
                obj_->deallocate_node(p, r.bytes(), r.align);
            else if (r.array)
                traits::deallocate_array(*obj_, p, r.count, r.size, r.align);
            else
                traits::deallocate_node(*obj_, p, r.size, r.align);
        }
        bool try_dealloc(void*, const Req&) override
        {
            return false;
        }
        size_t max_node() override
        {
            return traits::max_node_size(*obj_);
        }
        size_t max_array() override
        {
            return traits::max_array_size(*obj_);
        }
        size_t max_align() override
        {
            return traits::max_alignment(*obj_);
        }
        void caps(std::vector<size_t>& out, size_t) override
        {
            out.clear();
            out.push_back(obj_->max_node_size());
        }
        bool move_construct(bool) override
        {
            return false;
        }
        bool move_assign(bool, int) override
        {
            return false;
        }
        bool swap_with_fresh(bool, int) override
        {
            return false;
        }
        size_t zombies() override
        {
            return 0;
        }
        void destroy_zombie(size_t) override {}
        bool assign_to_zombie(size_t) override
        {
            return false;
        }
        void destroy_all() override
        {
            if (obj_)
                obj_->~T();
            obj_ = nullptr;
        }

    private:
        using storage_t = fm::static_allocator_storage<4096>;
        storage_t* storage_ = nullptr;
        T*         obj_     = nullptr;
    };

    // temporary_allocator on an explicit temporary_stack (its blocks come from the default
    // allocator: not observable upstream, containment is judged by ASan like for the low-level ones)
    class TempSubj : public ISubject
    {
    public:
        using T      = fm::temporary_allocator;
        using traits = fm::allocator_traits<T>;
        explicit TempSubj(Ctx& c)
        {
            fam            = F_TEMP;
            name           = "TMP";
            has_upstream   = false;
            has_member     = true;
            has_composable = false;
            releasable     = false;
            movable        = false;
            owner          = c.new_owner();
            stack_.reset(new fm::temporary_stack(stack_block_for_class(c.block_class)));
            alloc_.reset(new T(*stack_));
            c.block_size = 0;
        }
        ~TempSubj() override
        {
            destroy_all();
        }
        void* alloc(const Req& r) override
        {
            if (r.iface == MEMBER)
                return alloc_->allocate(r.bytes(), r.align);
            return r.array ? traits::allocate_array(*alloc_, r.count, r.size, r.align) :
                             traits::allocate_node(*alloc_, r.size, r.align);
        }
        void* try_alloc(const Req&) override
        {
            return nullptr;
        }
        void dealloc(void* p, const Req& r) override
        {
            if (r.iface == MEMBER)
                return;
            if (r.array)
                traits::deallocate_array(*alloc_, p, r.count, r.size, r.align);
            else
                traits::deallocate_node(*alloc_, p, r.size, r.align);
        }
        bool try_dealloc(void*, const Req&) override
        {
            return false;
        }
        size_t max_node() override
        {
            return traits::max_node_size(*alloc_);
        }
        size_t max_array() override
        {
            return traits::max_array_size(*alloc_);
        }
        size_t max_align() override
        {
            return traits::max_alignment(*alloc_);
        }
        void caps(std::vector<size_t>& out, size_t) override
        {
            out.clear();
        }
        bool move_construct(bool) override
        {
            return false;
        }
        bool move_assign(bool, int) override
        {
            return false;
        }
        bool swap_with_fresh(bool, int) override
        {
            return false;
        }
        size_t zombies() override
        {
            return 0;
        }
        void destroy_zombie(size_t) override {}
        bool assign_to_zombie(size_t) override
        {
            return false;
        }
        void destroy_all() override
        {
            alloc_.reset();
            stack_.reset();
        }

    private:
        std::unique_ptr<fm::temporary_stack> stack_;
        std::unique_ptr<T>                   alloc_;
    };

    // stateless low-level allocators on the real heap
    template <class A>
    class LowLevelSubj : public ISubject
    {
    public:
        using traits = fm::allocator_traits<A>;
        LowLevelSubj(Ctx& c, const char* n)
        {
            fam            = F_LOWLEVEL;
            name           = std::string("LL-") + n;
            has_upstream   = false;
            has_member     = false;
            has_composable = false;
            releasable     = true;
            movable        = false;
            owner          = c.new_owner();
            c.block_size   = 0;
        }
        void* alloc(const Req& r) override
        {
            return r.array ? traits::allocate_array(a_, r.count, r.size, r.align) :
                             traits::allocate_node(a_, r.size, r.align);
        }
        void* try_alloc(const Req&) override
        {
            return nullptr;
        }
        void dealloc(void* p, const Req& r) override
        {
            if (r.array)
                traits::deallocate_array(a_, p, r.count, r.size, r.align);
            else
                traits::deallocate_node(a_, p, r.size, r.align);
        }
        bool try_dealloc(void*, const Req&) override
        {
            return false;
        }
        size_t max_node() override
        {
            return traits::max_node_size(a_);
        }
        size_t max_array() override
        {
            return traits::max_array_size(a_);
        }
        size_t max_align() override
        {
            return traits::max_alignment(a_);
        }
        void caps(std::vector<size_t>& out, size_t) override
        {
            out.clear();
        }
        bool move_construct(bool) override
        {
            return false;
        }
        bool move_assign(bool, int) override
        {
            return false;
        }
        bool swap_with_fresh(bool, int) override
        {
            return false;
        }
        size_t zombies() override
        {
            return 0;
        }
        void destroy_zombie(size_t) override {}
        bool assign_to_zombie(size_t) override
        {
            return false;
        }
        void destroy_all() override {}

    private:
        A a_;
    };
} // namespace hist
