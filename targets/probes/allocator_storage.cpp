#include <mutex>
#include <foonathan/memory/allocator_storage.hpp>
#include "common.hpp"
namespace fm = foonathan::memory;
using A = fm::allocator_adapter<probe::leaf<0>>;
template void probe::use_all<A>(A&);
template void probe::use_members<A>(A&);
using B = fm::allocator_reference<probe::leaf<0>>;
template void probe::use_all<B>(B&);
template void probe::use_members<B>(B&);
using C = fm::any_allocator_reference;
template void probe::use_all<C>(C&);
using D = fm::thread_safe_allocator<probe::leaf<0>, std::mutex>;
template void probe::use_all<D>(D&);
template void probe::use_members<D>(D&);
