#include <foonathan/memory/fallback_allocator.hpp>
#include "common.hpp"
using A = foonathan::memory::fallback_allocator<probe::leaf<0>, probe::leaf<1>>;
template void probe::use_all<A>(A&);
template void probe::use_members<A>(A&);
using B = foonathan::memory::fallback_allocator<A, probe::leaf<2>>;
template void probe::use_all<B>(B&);
template void probe::use_members<B>(B&);
