#include <foonathan/memory/segregator.hpp>
#include "common.hpp"
namespace fm = foonathan::memory;
using A = fm::binary_segregator<fm::threshold_segregatable<probe::leaf<0>>, probe::leaf<1>>;
template <class X>
void use_raw(X& a)
{
    using T = fm::allocator_traits<X>;
    void* p = T::allocate_node(a, 8, 8);
    T::deallocate_node(a, p, 8, 8);
    p = T::allocate_array(a, 3, 8, 8);
    T::deallocate_array(a, p, 3, 8, 8);
    (void)T::max_node_size(a);
    (void)T::max_array_size(a);
    (void)T::max_alignment(a);
}
template void use_raw<A>(A&);
using B = fm::segregator<fm::threshold_segregatable<probe::leaf<0>>, fm::threshold_segregatable<probe::leaf<1>>, probe::leaf<2>>;
template void use_raw<B>(B&);
