// instantiation probes (C09): every public member of every adapter must be instantiable for a
// composition the documentation allows. Each probe TU only has to compile.
#pragma once
#include <cstddef>
#include <type_traits>
#include <foonathan/memory/allocator_traits.hpp>
namespace probe
{
    // a full-concept composable stateful RawAllocator (declarations only; never linked)
    template <int I>
    struct leaf
    {
        using is_stateful = std::true_type;
        void*       allocate_node(std::size_t, std::size_t);
        void*       allocate_array(std::size_t, std::size_t, std::size_t);
        void        deallocate_node(void*, std::size_t, std::size_t) noexcept;
        void        deallocate_array(void*, std::size_t, std::size_t, std::size_t) noexcept;
        void*       try_allocate_node(std::size_t, std::size_t) noexcept;
        void*       try_allocate_array(std::size_t, std::size_t, std::size_t) noexcept;
        bool        try_deallocate_node(void*, std::size_t, std::size_t) noexcept;
        bool        try_deallocate_array(void*, std::size_t, std::size_t, std::size_t) noexcept;
        std::size_t max_node_size() const;
        std::size_t max_array_size() const;
        std::size_t max_alignment() const;
        int         state; // not an empty class
    };
    struct tracker
    {
        void on_node_allocation(void*, std::size_t, std::size_t) noexcept {}
        void on_array_allocation(void*, std::size_t, std::size_t, std::size_t) noexcept {}
        void on_node_deallocation(void*, std::size_t, std::size_t) noexcept {}
        void on_array_deallocation(void*, std::size_t, std::size_t, std::size_t) noexcept {}
    };
    // uses every member of the RawAllocator + composable interface of A
    template <class A>
    void use_all(A& a)
    {
        using T  = foonathan::memory::allocator_traits<A>;
        using CT = foonathan::memory::composable_allocator_traits<A>;
        void* p  = T::allocate_node(a, 8, 8);
        T::deallocate_node(a, p, 8, 8);
        p = T::allocate_array(a, 3, 8, 8);
        T::deallocate_array(a, p, 3, 8, 8);
        (void)T::max_node_size(a);
        (void)T::max_array_size(a);
        (void)T::max_alignment(a);
        p = CT::try_allocate_node(a, 8, 8);
        (void)CT::try_deallocate_node(a, p, 8, 8);
        p = CT::try_allocate_array(a, 3, 8, 8);
        (void)CT::try_deallocate_array(a, p, 3, 8, 8);
    }
    // direct member calls (not through the traits, which may paper over a missing member)
    template <class A>
    void use_members(A& a)
    {
        void* p = a.allocate_node(8, 8);
        a.deallocate_node(p, 8, 8);
        p = a.allocate_array(3, 8, 8);
        a.deallocate_array(p, 3, 8, 8);
        (void)a.max_node_size();
        (void)a.max_array_size();
        (void)a.max_alignment();
        p = a.try_allocate_node(8, 8);
        (void)a.try_deallocate_node(p, 8, 8);
        p = a.try_allocate_array(3, 8, 8);
        (void)a.try_deallocate_array(p, 3, 8, 8);
    }
} // namespace probe
