#include <foonathan/memory/tracking.hpp>
#include "common.hpp"
using A = foonathan::memory::tracked_allocator<probe::tracker, probe::leaf<0>>;
template void probe::use_all<A>(A&);
template void probe::use_members<A>(A&);
