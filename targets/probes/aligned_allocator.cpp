#include <foonathan/memory/aligned_allocator.hpp>
#include "common.hpp"
using A = foonathan::memory::aligned_allocator<probe::leaf<0>>;
template void probe::use_all<A>(A&);
template void probe::use_members<A>(A&);
