// hist_s3.cpp — memory_pool_collection subjects, log2 buckets
#include "hist_pools.hpp"
using namespace hist;
#define K3(UP)                                                                                     \
    HIST_REG(K_node_log2_##UP, F_COLL, CollSubj<fm::node_pool, fm::log2_buckets, UP>);             \
    HIST_REG(K_array_log2_##UP, F_COLL, CollSubj<fm::array_pool, fm::log2_buckets, UP>);           \
    HIST_REG(K_small_log2_##UP, F_COLL, CollSubj<fm::small_node_pool, fm::log2_buckets, UP>)
K3(UpG2);
K3(UpG32);
K3(UpFixed);
K3(UpStatic);
K3(UpVirtual);
