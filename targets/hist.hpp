// hist.hpp — subject abstraction for the allocator-history target (DESIGN.md §5, target `hist`).
#pragma once
#include <functional>
#include <memory>
#include <string>
#include <vector>

#include <foonathan/memory/allocator_traits.hpp>
#include <foonathan/memory/config.hpp>
#include <foonathan/memory/debugging.hpp>
#include <foonathan/memory/error.hpp>
#include <foonathan/memory/memory_arena.hpp>
#include <foonathan/memory/static_allocator.hpp>
#include <foonathan/memory/virtual_memory.hpp>

#include "../vf/slab.hpp"
#include "../vf/vf.hpp"

namespace hist
{
    namespace fm = foonathan::memory;
    using vf::Slab;
    using vf::SlabAlloc;

    enum Family
    {
        F_POOL,
        F_COLL,
        F_STACK,
        F_ITER,
        F_STATIC,
        F_TEMP,
        F_LOWLEVEL,
        F_ARENA
    };
    enum Iface : uint8_t
    {
        MEMBER     = 0,
        TRAITS     = 1,
        COMPOSABLE = 2
    };

    struct Req
    {
        bool   array = false;
        size_t count = 1, size = 1, align = 1;
        Iface  iface = TRAITS;
        size_t bytes() const
        {
            return array ? count * size : size;
        }
    };

    constexpr size_t fence_size = fm::detail::debug_fence_size;
    constexpr bool   fill_on    = FOONATHAN_MEMORY_DEBUG_FILL;
    constexpr bool   leak_on    = FOONATHAN_MEMORY_DEBUG_LEAK_CHECK;
    constexpr bool   ptrchk_on  = FOONATHAN_MEMORY_DEBUG_POINTER_CHECK;
    constexpr bool   assert_on  = FOONATHAN_MEMORY_DEBUG_ASSERT;
    constexpr size_t arena_off  = fm::detail::memory_block_stack::implementation_offset();
    constexpr size_t static_storage_size = 65536;
    constexpr int    static_owner_offset = 100000;

    //=== construction context, resolved from program params by the runner ===//
    struct Ctx
    {
        int      next_owner  = 1;
        size_t   node_size   = 16;  // pool node size / collection max node size / unused
        uint32_t block_class = 0;   // how block size is chosen
        uint32_t block_extra = 0;
        size_t   block_size  = 0;   // resolved by the subject factory
        unsigned n_param     = 2;   // misc (virtual: number of blocks)
        bool     obj_above   = false;
        bool     allow_known = false; // probe programs of recorded findings switch exclusions off
        unsigned excluded    = 0;     // how many generated choices were rewritten by an exclusion
        int      new_owner()
        {
            return next_owner++;
        }
    };

    //=== upstream kinds ===//
    // block-level logging wrapper for block allocators that do not take a RawAllocator
    template <class Base>
    class LoggedBlock : public Base
    {
    public:
        template <typename... Args>
        LoggedBlock(std::size_t block_size, int owner, Args&&... args)
        : Base(block_size, static_cast<Args&&>(args)...), owner_(owner)
        {
        }
        LoggedBlock(LoggedBlock&&)            = default;
        LoggedBlock& operator=(LoggedBlock&&) = default;

        fm::memory_block allocate_block()
        {
            Slab::get().foreign_pre_alloc(owner_, Base::next_block_size());
            auto b = Base::allocate_block();
            Slab::get().foreign_alloc(owner_, static_cast<char*>(b.memory), b.size);
            return b;
        }
        void deallocate_block(fm::memory_block b) noexcept
        {
            Slab::get().foreign_dealloc(owner_, static_cast<char*>(b.memory), b.size);
            Base::deallocate_block(b);
        }

    private:
        int owner_;
    };

    struct UpInfo
    {
        const char* name;
        bool        raw_logged; // logged at RawAllocator level (SlabAlloc)
        bool        bounded;    // cannot grow beyond a fixed amount
        bool        is_static, is_virtual, is_fixed1; // fixed1: exactly one block, ever
        unsigned    grow_num, grow_den;
    };

    struct UpG2
    {
        using type = fm::growing_block_allocator<SlabAlloc, 2, 1>;
        static constexpr UpInfo info{"grow2", true, false, false, false, false, 2, 1};
    };
    struct UpG32
    {
        using type = fm::growing_block_allocator<SlabAlloc, 3, 2>;
        static constexpr UpInfo info{"grow32", true, false, false, false, false, 3, 2};
    };
    struct UpFixed
    {
        using type = fm::fixed_block_allocator<SlabAlloc>;
        static constexpr UpInfo info{"fixed", true, true, false, false, true, 1, 1};
    };
    struct UpStatic
    {
        using type = LoggedBlock<fm::static_block_allocator>;
        static constexpr UpInfo info{"static", false, true, true, false, false, 1, 1};
    };
    struct UpVirtual
    {
        using type = LoggedBlock<fm::virtual_block_allocator>;
        static constexpr UpInfo info{"virtual", false, true, false, true, false, 1, 1};
    };

    using static_storage_t = fm::static_allocator_storage<static_storage_size>;

    // rounds a wanted block size to what the upstream kind accepts
    template <class Up>
    size_t legal_block_size(size_t wanted)
    {
        if (Up::info.is_static)
        {
            size_t b = 64;
            while (b < wanted && b < static_storage_size)
                b *= 2;
            return b; // divides 65536
        }
        if (Up::info.is_virtual)
            return (wanted + 4095) / 4096 * 4096;
        return wanted;
    }

    // constructs T(leading..., block_size, <upstream args>) in `storage`
    template <class Up, class T, typename... Lead>
    T* construct_with_upstream(void* storage, Ctx& c, int owner, size_t block_size, Lead... lead)
    {
        if constexpr (Up::info.raw_logged)
            return ::new (storage) T(lead..., block_size, SlabAlloc(owner));
        else if constexpr (Up::info.is_static)
        {
            // the static storage lives in the slab (deterministic address) and is registered as a
            // pseudo block of owner+static_owner_offset
            void* st = Slab::get().allocate(owner + static_owner_offset, false, 1,
                                            sizeof(static_storage_t), alignof(static_storage_t));
            auto* storage_obj = ::new (st) static_storage_t;
            (void)c;
            return ::new (storage) T(lead..., block_size, owner, *storage_obj);
        }
        else
        {
            std::size_t no_blocks = 1 + c.n_param % 6;
            return ::new (storage) T(lead..., block_size, owner, no_blocks);
        }
    }

    //=== the subject interface the interpreter drives ===//
    struct ISubject
    {
        Family      fam = F_POOL;
        std::string name;
        UpInfo      up{"none", false, false, false, false, false, 1, 1};
        bool        has_upstream   = true;  // arena based with an observable upstream
        bool        has_member     = true;  // has a member-function interface
        bool        has_composable = true;
        bool        arrays_ok      = true;  // array requests are valid input
        bool        releasable     = true;  // deallocation of single allocations returns memory
        bool        movable        = true;
        int         owner          = 0;     // owner id of the current state (changes with moves)

        virtual ~ISubject() {}
        virtual void* alloc(const Req&)                 = 0; // MEMBER or TRAITS, may throw
        virtual void* try_alloc(const Req&)             = 0; // COMPOSABLE, must not throw
        virtual void  dealloc(void* p, const Req&)      = 0;
        virtual bool  try_dealloc(void* p, const Req&)  = 0;
        virtual size_t max_node()  = 0;
        virtual size_t max_array() = 0;
        virtual size_t max_align() = 0;
        // size of the pool node that serves a request of `size` bytes (0: not a pool)
        virtual size_t node_size_of(size_t /*size*/)
        {
            return 0;
        }
        // smallest size with its own behaviour (pool: node size; coll: max node size)
        virtual size_t nominal_size()
        {
            return 0;
        }
        // capacity figures; meaning is family specific (see runner)
        virtual void caps(std::vector<size_t>& out, size_t for_size) = 0;

        // guarded hook: structural self check of the free list serving `size` (nullptr = fine)
        virtual const char* walk(size_t /*size*/, size_t& reachable)
        {
            reachable = 0;
            return nullptr;
        }
        virtual int  take_marker()
        {
            return -1;
        }
        virtual bool unwind(int)
        {
            return false;
        }
        virtual int marker_cmp(int, int)
        {
            return 0;
        } // returns bitmask of (<,<=,==,!=,>=,>) results
        // C16: number of stale markers kept / "is stale marker i above the current top?" / unwind to it
        virtual size_t stale_markers()
        {
            return 0;
        }
        virtual bool stale_above_top(size_t)
        {
            return false;
        }
        virtual void unwind_stale(size_t) {}
        // how the next unwind is carried out: 0 directly, 1 by the destructor of a
        // memory_stack_raii_unwind, 2 by its unwind() member (generated per operation)
        virtual void set_unwind_mode(unsigned) {}
        // a subject-level observation that contradicts the documentation (nullptr: none)
        const char* complaint_ = nullptr;
        virtual bool next_iteration()
        {
            return false;
        }
        virtual size_t iteration_info(int /*what*/)
        {
            return 0;
        }
        virtual bool shrink_to_fit()
        {
            return false;
        }
        virtual bool reserve(size_t, size_t)
        {
            return false;
        }

        // life cycle; all return false if unsupported
        virtual bool   move_construct(bool above)            = 0;
        virtual bool   move_assign(bool above, int variant)  = 0;
        virtual bool   swap_with_fresh(bool above, int variant) = 0;
        virtual size_t zombies()                             = 0;
        virtual void   destroy_zombie(size_t i)              = 0;
        virtual bool   assign_to_zombie(size_t i)            = 0;
        virtual void   destroy_all()                         = 0; // destroys current and the rest
    };

    //=== generic holder implementing the life cycle part ===//
    // Derived must provide:  T* fresh(void* storage, int owner)   and use cur() in its ops.
    template <class T, class Derived>
    class Holder : public ISubject
    {
    public:
        explicit Holder(Ctx& c) : ctx_(c) {}
        ~Holder() override
        {
            destroy_all();
        }
        T& cur()
        {
            return *cur_;
        }
        bool alive() const
        {
            return cur_ != nullptr;
        }
        void init(bool above)
        {
            owner = ctx_.new_owner();
            cur_  = self().fresh(Slab::get().object_storage(above, sizeof(T), alignof(T)), owner);
        }

        bool move_construct(bool above) override
        {
            if (!movable)
                return false;
            void* st = Slab::get().object_storage(above, sizeof(T), alignof(T));
            T*    n  = ::new (st) T(std::move(*cur_));
            zombies_.push_back(cur_);
            cur_ = n;
            self().after_move();
            return true;
        }
        bool move_assign(bool above, int variant) override
        {
            if (!movable)
                return false;
            if (variant % 5 == 4 && !zombies_.empty())
            {
                // a closed chain of moves: the current object is assigned back onto an object that was
                // moved from earlier, and the history continues on that one
                T* n = zombies_.back();
                zombies_.pop_back();
                *n = std::move(*cur_);
                zombies_.push_back(cur_);
                cur_ = n;
                self().after_move();
                return true;
            }
            void* st       = Slab::get().object_storage(above, sizeof(T), alignof(T));
            int   o2       = ctx_.new_owner();
            T*    n        = self().fresh_other(st, o2, variant);
            if (variant % 2 == 1)
            {
                try
                {
                    self().use_a_little(*n); // target holds allocations of its own
                }
                catch (std::bad_alloc&)
                {
                }
            }
            *n = std::move(*cur_);
            zombies_.push_back(cur_);
            cur_ = n;
            self().after_move();
            return true;
        }
        bool swap_with_fresh(bool above, int variant) override
        {
            if (!movable)
                return false;
            void* st = Slab::get().object_storage(above, sizeof(T), alignof(T));
            int   o2 = ctx_.new_owner();
            T*    n  = self().fresh_other(st, o2, variant);
            using std::swap;
            swap(*cur_, *n);
            spares_.push_back(cur_); // valid object that now holds the fresh state
            cur_ = n;
            self().after_move();
            return true;
        }
        size_t zombies() override
        {
            return zombies_.size();
        }
        void destroy_zombie(size_t i) override
        {
            zombies_[i]->~T();
            zombies_.erase(zombies_.begin() + long(i));
        }
        bool assign_to_zombie(size_t i) override
        {
            // "the moved-from object can be ... assigned to"
            void* st = Slab::get().object_storage(false, sizeof(T), alignof(T));
            int   o2 = ctx_.new_owner();
            T*    n  = self().fresh(st, o2);
            *zombies_[i] = std::move(*n);
            spares_.push_back(zombies_[i]); // valid again
            zombies_.erase(zombies_.begin() + long(i));
            zombies_.push_back(n); // n is now moved-from
            return true;
        }
        void destroy_all() override
        {
            // generated order: current first or last is decided by the runner through
            // destroy_zombie() calls before; here: current, spares, zombies
            if (cur_)
            {
                cur_->~T();
                cur_ = nullptr;
            }
            for (auto* s : spares_)
                s->~T();
            spares_.clear();
            for (auto* z : zombies_)
                z->~T();
            zombies_.clear();
        }

    protected:
        Derived& self()
        {
            return static_cast<Derived&>(*this);
        }
        void after_move() {}
        void use_a_little(T&) {}
        // target of a move assignment / partner of a swap: pools and collections override this to
        // build some of them with *different* parameters (node size, number of buckets) than the source
        T* fresh_other(void* st, int owner, int)
        {
            return self().fresh(st, owner);
        }
        Ctx&            ctx_;
        T*              cur_ = nullptr;
        std::vector<T*> zombies_, spares_;
    };

    //=== registry ===//
    using Factory = std::function<std::unique_ptr<ISubject>(Ctx&)>;
    struct Entry
    {
        std::string name;
        Family      fam;
        Factory     make;
    };
    std::vector<Entry>& registry();
    struct Registrar
    {
        Registrar(std::string name, Family fam, Factory f)
        {
            registry().push_back({std::move(name), fam, std::move(f)});
        }
    };

#define HIST_REG(NAME, FAM, ...)                                                                   \
    static ::hist::Registrar NAME(#NAME, FAM,                                                      \
                                  [](::hist::Ctx& c) -> std::unique_ptr<::hist::ISubject>          \
                                  { return std::unique_ptr<::hist::ISubject>(new __VA_ARGS__(c)); })

    // independent (loop based) helpers used for sizing preconditions — not the library's
    inline size_t ref_pow2_ceil(size_t v)
    {
        size_t p = 1;
        while (p < v)
            p *= 2;
        return p;
    }
} // namespace hist
