// hist_s4.cpp — memory_stack, iteration_allocator, static_allocator, low-level allocators
#include "hist_stack.hpp"
using namespace hist;
HIST_REG(STK_UpG2, F_STACK, StackSubj<UpG2>);
HIST_REG(STK_UpG32, F_STACK, StackSubj<UpG32>);
HIST_REG(STK_UpFixed, F_STACK, StackSubj<UpFixed>);
HIST_REG(STK_UpStatic, F_STACK, StackSubj<UpStatic>);
HIST_REG(STK_UpVirtual, F_STACK, StackSubj<UpVirtual>);
#define ITN(N)                                                                                     \
    HIST_REG(IT##N##_UpFixed, F_ITER, IterSubj<N, UpFixed>);                                       \
    HIST_REG(IT##N##_UpStatic, F_ITER, IterSubj<N, UpStatic>)
ITN(1);
ITN(2);
ITN(3);
ITN(4);
ITN(5);
HIST_REG(IT2_UpVirtual, F_ITER, IterSubj<2, UpVirtual>);
HIST_REG(STAT, F_STATIC, StaticSubj);
HIST_REG(TMP, F_TEMP, TempSubj);
namespace
{
    struct LLheap : LowLevelSubj<fm::heap_allocator>
    {
        explicit LLheap(Ctx& c) : LowLevelSubj(c, "heap") {}
    };
    struct LLmalloc : LowLevelSubj<fm::malloc_allocator>
    {
        explicit LLmalloc(Ctx& c) : LowLevelSubj(c, "malloc") {}
    };
    struct LLnew : LowLevelSubj<fm::new_allocator>
    {
        explicit LLnew(Ctx& c) : LowLevelSubj(c, "new") {}
    };
    struct LLvirtual : LowLevelSubj<fm::virtual_memory_allocator>
    {
        explicit LLvirtual(Ctx& c) : LowLevelSubj(c, "virtual") {}
    };
} // namespace
HIST_REG(LL_heap, F_LOWLEVEL, LLheap);
HIST_REG(LL_malloc, F_LOWLEVEL, LLmalloc);
HIST_REG(LL_new, F_LOWLEVEL, LLnew);
HIST_REG(LL_virtual, F_LOWLEVEL, LLvirtual);
