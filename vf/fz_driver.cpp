// fz_driver.cpp — libFuzzer front end: bytes -> program (structure-aware decode) -> interpreter.
// Environment: VF_PROP, VF_CONFIG, VF_OUT (directory for fz-fail.prog / stats).
#include <atomic>
#include <unistd.h>

#include "vf.hpp"

using namespace vf;

namespace
{
    Spec        g_spec;
    std::string g_config, g_out;
    Stats       g_stats;
    bool        g_init = false;
    std::vector<uint32_t> g_kind_table; // weighted kind lookup

    void init()
    {
        const char* prop = std::getenv("VF_PROP");
        const char* cfg  = std::getenv("VF_CONFIG");
        const char* out  = std::getenv("VF_OUT");
        g_config         = cfg ? cfg : "base";
        g_out            = out ? out : ".";
        Target& t        = the_target();
        if (!prop || !t.spec(prop, g_spec))
        {
            std::fprintf(stderr, "VF_PROP unset or not served\n");
            std::_Exit(3);
        }
        g_spec.property = prop;
        g_spec.target   = t.name();
        t.init(g_config);
        for (unsigned k = 0; k < g_spec.kinds.size(); ++k)
            for (unsigned i = 0; i < g_spec.kinds[k].weight; ++i)
                g_kind_table.push_back(k);
        g_init = true;
        std::atexit(
            []
            {
                write_file(g_out + "/fz-stats-" + std::to_string(getpid()) + ".json",
                           stats_json(g_stats, g_spec, g_config));
            });
    }

    // argument decode: one tag byte selects the magnitude class, like the rapidcheck generator
    struct Reader
    {
        const uint8_t* d;
        size_t         n, i = 0;
        uint32_t       u8()
        {
            return i < n ? d[i++] : 0;
        }
        uint32_t u16()
        {
            uint32_t lo = u8();
            return lo | (u8() << 8);
        }
        uint32_t arg()
        {
            uint32_t tag = u8();
            switch (tag & 3)
            {
            case 0:
                return tag >> 4; // 0..15
            case 1:
                return u8();
            case 2:
                return u16();
            default:
                return u16() | (u16() << 16);
            }
        }
        bool done() const
        {
            return i >= n;
        }
    };
} // namespace

extern "C" int LLVMFuzzerTestOneInput(const uint8_t* data, size_t size)
{
    if (!g_init)
        init();
    Reader  r{data, size};
    Program p;
    for (unsigned i = 0; i < g_spec.nparams; ++i)
        p.params.push_back(r.arg());
    while (!r.done() && p.ops.size() < g_spec.max_ops)
    {
        Op op;
        op.kind = g_kind_table.empty() ? 0 : g_kind_table[r.u8() % g_kind_table.size()];
        op.a    = r.arg();
        op.b    = r.arg();
        op.c    = r.arg();
        p.ops.push_back(op);
    }
    if (std::getenv("VF_DUMP"))
        write_file(g_out + "/fz-dump.prog", to_text(g_spec, g_config, p)); // artifact -> program text
    CaseInfo ci;
    Verdict  v = the_target().run(g_spec, p, ci);
    g_stats.add(g_spec, g_config, p, ci);
    if (!v.ok)
    {
        p.hint    = ci.subject;
        auto text = to_text(g_spec, g_config, p);
        write_file(g_out + "/fz-fail-" + std::to_string(getpid()) + ".prog", text);
        write_file(g_out + "/fz-fail-" + std::to_string(getpid()) + ".sig",
                   v.signature + "\n" + v.message + "\n");
        write_file(g_out + "/fz-stats-" + std::to_string(getpid()) + ".json",
                   stats_json(g_stats, g_spec, g_config));
        __builtin_trap();
    }
    return 0;
}
