// rc_driver.cpp — rapidcheck front end + text replay for any vf::Target.
//
//   <bin> --prop C01 --config base --rc --out DIR --shard 3      (RC_PARAMS from the environment)
//   <bin> --prop C01 --config base --replay FILE [--out DIR]
//   <bin> --prop C01 --spec                                       (print the spec as JSON)
//
// Exit codes: 0 = all cases passed, 1 = a case failed (fail-<shard>.prog / .sig written),
// anything else (signal, sanitizer abort) = crash; the program that was running is in
// cur-<shard>.prog because it is written *before* it is executed.
#include <rapidcheck.h>

#include <fcntl.h>
#include <signal.h>
#include <unistd.h>

#include "vf.hpp"

using namespace vf;

namespace
{
    rc::Gen<uint32_t> gen_arg()
    {
        using namespace rc;
        return gen::resize(
            100, gen::weightedOneOf<uint32_t>(
                     {{5, gen::inRange<uint32_t>(0, 16)},
                      {4, gen::inRange<uint32_t>(0, 256)},
                      {2, gen::inRange<uint32_t>(0, 65536)},
                      {1, gen::arbitrary<uint32_t>()}}));
    }

    rc::Gen<Op> gen_op(const Spec& spec)
    {
        using namespace rc;
        std::vector<uint32_t> table;
        for (unsigned k = 0; k < spec.kinds.size(); ++k)
            for (unsigned i = 0; i < spec.kinds[k].weight; ++i)
                table.push_back(k);
        auto kind = gen::elementOf(table);
        return gen::build<Op>(gen::set(&Op::kind, kind), gen::set(&Op::a, gen_arg()),
                              gen::set(&Op::b, gen_arg()), gen::set(&Op::c, gen_arg()));
    }

    rc::Gen<Program> gen_program(const Spec& spec)
    {
        using namespace rc;
        auto params = gen::container<std::vector<uint32_t>>(spec.nparams, gen_arg());
        auto ops    = gen::container<std::vector<Op>>(gen_op(spec));
        return gen::build<Program>(gen::set(&Program::params, params),
                                   gen::set(&Program::ops, ops));
    }

    struct CurFile
    {
        int fd = -1;
        void open(const std::string& path)
        {
            fd = ::open(path.c_str(), O_CREAT | O_WRONLY | O_TRUNC, 0644);
        }
        void put(const std::string& s)
        {
            if (fd < 0)
                return;
            (void)!::ftruncate(fd, 0);
            (void)!::pwrite(fd, s.data(), s.size(), 0);
        }
    };
} // namespace

namespace rc
{
    template <>
    struct Arbitrary<Op>
    {
        static Gen<Op> arbitrary()
        {
            return gen::just(Op{});
        }
    };
} // namespace rc

static void show(std::ostream& os, const Program& p)
{
    os << "program(" << p.params.size() << " params, " << p.ops.size() << " ops)";
}
namespace vf
{
    void showValue(const Program& p, std::ostream& os)
    {
        show(os, p);
    }
    void showValue(const Op& o, std::ostream& os)
    {
        os << "op(" << o.kind << "," << o.a << "," << o.b << "," << o.c << ")";
    }
} // namespace vf

int main(int argc, char** argv)
{
    std::string prop, config = "base", out = ".", replay, shard = "0";
    bool        do_rc = false, do_spec = false;
    for (int i = 1; i < argc; ++i)
    {
        std::string a = argv[i];
        auto        next = [&]() -> std::string { return i + 1 < argc ? argv[++i] : ""; };
        if (a == "--prop")
            prop = next();
        else if (a == "--config")
            config = next();
        else if (a == "--out")
            out = next();
        else if (a == "--replay")
            replay = next();
        else if (a == "--shard")
            shard = next();
        else if (a == "--rc")
            do_rc = true;
        else if (a == "--spec")
            do_spec = true;
    }
    Target& t = the_target();
    Spec    spec;
    if (!t.spec(prop, spec))
    {
        std::fprintf(stderr, "target %s does not serve property %s\n", t.name(), prop.c_str());
        return 3;
    }
    spec.property = prop;
    spec.target   = t.name();
    if (do_spec)
    {
        std::printf("{\"target\":\"%s\",\"property\":\"%s\",\"nparams\":%u,\"max_ops\":%u,\"rule\":\"%s\"}\n",
                    spec.target.c_str(), prop.c_str(), spec.nparams, spec.max_ops,
                    json_escape(spec.rule).c_str());
        return 0;
    }
    t.init(config);

    if (!replay.empty())
    {
        std::string text, err;
        if (!read_file(replay, text))
        {
            std::fprintf(stderr, "cannot read %s\n", replay.c_str());
            return 3;
        }
        Program p;
        if (!from_text(spec, text, p, err))
        {
            std::fprintf(stderr, "parse error: %s\n", err.c_str());
            return 3;
        }
        CaseInfo ci;
        Verdict  v;
        try
        {
            v = t.run(spec, p, ci);
        }
        catch (std::exception& e)
        {
            v = Verdict::fail(prop + "|harness|uncaught-exception", e.what());
        }
        std::string cls;
        for (auto& c : ci.classes)
            cls += c + " ";
        std::printf("REPLAY subject=%s nontrivial=%d noops=%u classes=%s\n", ci.subject.c_str(),
                    int(ci.nontrivial), ci.noops, cls.c_str());
        if (!v.ok)
        {
            // a replay with the exclusion of a recorded finding switched off marks its signature: the
            // recorded finding matches this marked signature only, never one from a generated case
            std::string sig = v.signature;
            if (const char* k = std::getenv("VF_ALLOW_KNOWN"))
                sig += std::string("@probe:") + k;
            std::printf("FAIL signature=%s\n%s\n", sig.c_str(), v.message.c_str());
            return 1;
        }
        std::printf("PASS\n");
        return 0;
    }

    if (!do_rc)
    {
        std::fprintf(stderr, "nothing to do\n");
        return 3;
    }

    // watchdog: a case that does not finish is a hang (exit 87); the driver replays the saved
    // program with its own timeout before calling it anything
    signal(SIGALRM, [](int) { _exit(87); });
    // time limit of the shard (SIGTERM from the driver): stop before the next case, keep the statistics
    static volatile sig_atomic_t stop_requested = 0;
    signal(SIGTERM, [](int) { stop_requested = 1; });
    Stats   stats;
    CurFile cur;
    cur.open(out + "/cur-" + shard + ".prog");
    bool        failed = false;
    std::string last_fail_text, last_fail_sig, last_fail_msg;
    auto        gen = gen_program(spec);

    bool ok = rc::check(
        [&]
        {
            if (stop_requested && !failed)
            {
                alarm(0);
                write_file(out + "/stats-" + shard + ".json", stats_json(stats, spec, config));
                write_file(out + "/stopped-" + shard, "time limit\n");
                std::fflush(nullptr);
                _exit(0);
            }
            Program p = *gen;
            if (p.ops.size() > spec.max_ops)
                p.ops.resize(spec.max_ops);
            p.params.resize(spec.nparams, 0);
            auto text = to_text(spec, config, p);
            cur.put(text);
            alarm(30); // a case takes milliseconds; see on_alarm
            CaseInfo ci;
            Verdict  v;
            try
            {
                v = t.run(spec, p, ci);
            }
            catch (std::exception& e)
            {
                v = Verdict::fail(prop + "|harness|uncaught-exception", e.what());
            }
            stats.add(spec, config, p, ci);
            if (!v.ok)
            {
                stats.frozen   = true; // everything after this is shrinking
                failed         = true;
                p.hint         = ci.subject; // pin the subject by name in the saved program
                text           = to_text(spec, config, p);
                last_fail_text = text;
                last_fail_sig  = v.signature;
                last_fail_msg  = v.message;
                RC_FAIL(v.signature);
            }
        });
    alarm(0);
    write_file(out + "/stats-" + shard + ".json", stats_json(stats, spec, config));
    if (!ok || failed)
    {
        write_file(out + "/fail-" + shard + ".prog", last_fail_text);
        write_file(out + "/fail-" + shard + ".sig", last_fail_sig + "\n" + last_fail_msg + "\n");
        return 1;
    }
    return 0;
}
