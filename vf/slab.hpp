// slab.hpp — deterministic, logging, fault-injecting upstream memory source (DESIGN.md §3.3).
//
// All blocks come from one region mapped at a fixed address, so that address-order dependent
// behaviour of the library replays exactly. Everything outside a lent block is ASan-poisoned
// and filled with a canary, so a write by the library outside memory it owns is a sanitizer
// report (ASan builds) or a canary mismatch (other builds).
#pragma once
#include <sys/mman.h>

#include <cstddef>
#include <cstdint>
#include <cstdio>
#include <cstdlib>
#include <cstring>
#include <new>
#include <string>
#include <type_traits>
#include <vector>

#if defined(__has_feature)
#if __has_feature(address_sanitizer)
#define VF_ASAN 1
#endif
#endif
#if defined(__SANITIZE_ADDRESS__)
#define VF_ASAN 1
#endif
#ifdef VF_ASAN
#include <sanitizer/asan_interface.h>
#define VF_POISON(p, n) ASAN_POISON_MEMORY_REGION(p, n)
#define VF_UNPOISON(p, n) ASAN_UNPOISON_MEMORY_REGION(p, n)
#else
#define VF_POISON(p, n) ((void)(p), (void)(n))
#define VF_UNPOISON(p, n) ((void)(p), (void)(n))
#endif

namespace vf
{
    struct injected_oom : std::bad_alloc
    {
        unsigned ticket;
        explicit injected_oom(unsigned t) : ticket(t) {}
        const char* what() const noexcept override
        {
            return "vf::injected_oom";
        }
    };

    struct UpCall
    {
        enum Kind : uint8_t
        {
            alloc_node,
            alloc_array,
            dealloc_node,
            dealloc_array
        } kind;
        int       owner; // which SlabAlloc (subject) made the call
        size_t    count, size, align;
        char*     addr;
        uint64_t  seq;
        bool      failed; // injected failure
    };

    struct SlabBlock
    {
        char*  addr;
        size_t bytes;
        int    owner;
        bool   array;
        size_t count, size, align;
        uint64_t seq;
        size_t   req_align = 0; // alignment exactly as passed by the caller
    };

    class Slab
    {
    public:
        static constexpr uintptr_t base_addr  = 0x200000000000ull;
        static constexpr size_t    total_size = size_t(96) << 20; // 96 MiB
        static constexpr size_t    obj_area   = size_t(1) << 20;  // object areas at both ends
        enum Policy : unsigned
        {
            ascending   = 0, // bump upwards with guard gaps
            descending  = 1, // bump downwards with guard gaps
            adjacent    = 2, // bump upwards, zero gap
            reuse_last  = 3, // ascending, but reuse the most recently freed block of equal size
            far         = 4, // successive blocks alternate between three windows 3 GiB apart (address
                             // differences do not fit into 32 bits)
            n_policies  = 5
        };
        static constexpr size_t    far_size   = size_t(8) << 20;
        static constexpr uintptr_t far_off[2] = {uintptr_t(3) << 30, uintptr_t(6) << 30};

        static Slab& get()
        {
            static Slab s;
            return s;
        }

        void map()
        {
            if (mem_)
                return;
            void* p = mmap(reinterpret_cast<void*>(base_addr), total_size, PROT_READ | PROT_WRITE,
                           MAP_PRIVATE | MAP_ANONYMOUS | MAP_FIXED_NOREPLACE | MAP_NORESERVE, -1, 0);
            if (p == MAP_FAILED || p != reinterpret_cast<void*>(base_addr))
            {
                std::perror("vf::Slab mmap at fixed address");
                std::_Exit(4);
            }
            for (int w = 0; w < 2; ++w)
            {
                void* q = mmap(reinterpret_cast<void*>(base_addr + far_off[w]), far_size, PROT_READ | PROT_WRITE,
                               MAP_PRIVATE | MAP_ANONYMOUS | MAP_FIXED_NOREPLACE | MAP_NORESERVE, -1, 0);
                if (q == MAP_FAILED || q != reinterpret_cast<void*>(base_addr + far_off[w]))
                {
                    std::perror("vf::Slab mmap of a far window");
                    std::_Exit(4);
                }
                far_[w] = static_cast<char*>(q);
                VF_POISON(far_[w], far_size);
            }
            mem_ = static_cast<char*>(p);
            lo_  = mem_ + obj_area;
            hi_  = mem_ + total_size - obj_area;
            VF_POISON(lo_, size_t(hi_ - lo_));
            reset(ascending, 64);
        }

        // start of a case: forget everything, re-poison what was used
        void reset(unsigned policy, size_t gap)
        {
            for (auto& b : out_)
                VF_POISON(b.addr, b.bytes);
            out_.clear();
            free_.clear();
            log_.clear();
            if (touched_lo_ < touched_hi_)
            {
                // blocks are re-poisoned on release; nothing else to do
            }
            skew_        = 0;
            // (values that meant one of the first four policies in saved programs keep their meaning)
            policy_      = policy % 7 == 6 ? unsigned(far) : policy % 4;
            gap_         = policy_ == adjacent ? 0 : (gap + 15) / 16 * 16;
            far_up_[0]   = far_[0] + 4096;
            far_up_[1]   = far_[1] + 4096;
            far_next_    = 0;
            up_          = lo_ + 4096;
            down_        = hi_ - 4096;
            seq_         = 0;
            fail_at_     = 0;
            alloc_calls_ = 0;
            obj_lo_      = mem_;
            obj_hi_      = hi_;
            touched_lo_  = up_;
            touched_hi_  = up_;
            VF_UNPOISON(mem_, obj_area);
            VF_UNPOISON(hi_, obj_area);
        }

        // harness-owned storage for subject objects: below or above every block
        void* object_storage(bool above, size_t bytes, size_t align = 64)
        {
            char*& cur = above ? obj_hi_ : obj_lo_;
            auto   a   = (reinterpret_cast<uintptr_t>(cur) + align - 1) / align * align;
            cur        = reinterpret_cast<char*>(a) + bytes;
            char* end  = above ? hi_ + obj_area : mem_ + obj_area;
            if (cur > end)
            {
                std::fprintf(stderr, "vf::Slab object area exhausted\n");
                std::_Exit(4);
            }
            return reinterpret_cast<void*>(a);
        }

        // the next allocations are placed at (16-aligned address + skew): the residue modulo 16 of
        // what an upstream returns is an input (only the requested alignment is promised)
        void set_skew(size_t s)
        {
            skew_ = s % 16;
        }
        // k = 1-based index of the upstream allocation call that shall fail; 0 = never
        void fail_at(unsigned k)
        {
            fail_at_ = k;
        }
        unsigned alloc_calls() const
        {
            return alloc_calls_;
        }
        // 0, or the index of an armed fault that has not fired yet
        unsigned pending_fault() const
        {
            return fail_at_ > alloc_calls_ ? fail_at_ : 0;
        }

        void* allocate(int owner, bool array, size_t count, size_t size, size_t align)
        {
            ++alloc_calls_;
            size_t bytes = array ? count * size : size;
            if (fail_at_ && alloc_calls_ == fail_at_)
            {
                log_.push_back({array ? UpCall::alloc_array : UpCall::alloc_node, owner, count,
                                size, align, nullptr, seq_++, true});
                throw injected_oom(alloc_calls_);
            }
            size_t req_align = align;
            if (align < 16)
                align = 16;
            char* p = nullptr;
            if (policy_ == reuse_last)
            {
                for (size_t i = free_.size(); i-- > 0;)
                    if (free_[i].bytes == bytes
                        && reinterpret_cast<uintptr_t>(free_[i].addr) % 16 == skew_
                        && reinterpret_cast<uintptr_t>(free_[i].addr) % req_align == 0
                        && (align <= 16 || reinterpret_cast<uintptr_t>(free_[i].addr) % align == 0))
                    {
                        p = free_[i].addr;
                        free_.erase(free_.begin() + long(i));
                        break;
                    }
            }
            if (!p)
            {
                unsigned w = policy_ == far ? far_next_++ % 3 : 0;
                if (w != 0)
                {
                    auto a = (reinterpret_cast<uintptr_t>(far_up_[w - 1]) + align - 1) / align * align;
                    if (skew_ && req_align <= skew_ && skew_ % req_align == 0)
                        a += skew_;
                    if (a + bytes + 4096 <= reinterpret_cast<uintptr_t>(far_[w - 1]) + far_size)
                    {
                        p              = reinterpret_cast<char*>(a);
                        far_up_[w - 1] = p + bytes + gap_;
                    }
                }
                if (p)
                {
                }
                else if (policy_ == descending)
                {
                    auto a = (reinterpret_cast<uintptr_t>(down_) - bytes) / align * align;
                    p      = reinterpret_cast<char*>(a);
                    down_  = p - gap_;
                }
                else
                {
                    auto a = (reinterpret_cast<uintptr_t>(up_) + align - 1) / align * align;
                    if (skew_ && req_align <= skew_ && skew_ % req_align == 0)
                        a += skew_;
                    p   = reinterpret_cast<char*>(a);
                    up_ = p + bytes + gap_;
                }
                if (up_ + 4096 > down_)
                {
                    std::fprintf(stderr, "vf::Slab exhausted (case too large)\n");
                    std::_Exit(4);
                }
            }
            VF_UNPOISON(p, bytes);
            std::memset(p, 0x5a, bytes); // deterministic content of fresh upstream memory
            out_.push_back({p, bytes, owner, array, count, size, align, seq_, req_align});
            log_.push_back({array ? UpCall::alloc_array : UpCall::alloc_node, owner, count, size,
                            req_align, p, seq_++, false});
            return p;
        }

        // returns an error text or nullptr
        const char* deallocate(int owner, bool array, void* ptr, size_t count, size_t size,
                               size_t align)
        {
            log_.push_back({array ? UpCall::dealloc_array : UpCall::dealloc_node, owner, count,
                            size, align, static_cast<char*>(ptr), seq_++, false});
            for (size_t i = out_.size(); i-- > 0;)
            {
                auto& b = out_[i];
                if (b.addr != ptr)
                    continue;
                const char* err = nullptr;
                if (b.array != array || b.count != count || b.size != size)
                    err = "upstream release with different kind/count/size than the allocation";
                else if (b.req_align != align)
                    err = "upstream release with a different alignment than the allocation";
                else if (b.owner != owner)
                    err = "upstream release through a different allocator object";
                if (i + 1 != out_.size())
                {
                    // not the most recently acquired outstanding block *of this owner*?
                    bool newer_same_owner = false;
                    for (size_t j = i + 1; j < out_.size(); ++j)
                        if (out_[j].owner == owner)
                            newer_same_owner = true;
                    if (newer_same_owner && !err)
                        lifo_violations_++;
                }
                VF_POISON(b.addr, b.bytes);
                free_.push_back(b);
                out_.erase(out_.begin() + long(i));
                if (err)
                    last_error_ = err;
                return err;
            }
            last_error_ = "upstream release of a block that is not outstanding";
            return last_error_;
        }

        // block-level events of block allocators that do not sit on a SlabAlloc (static/virtual)
        void foreign_pre_alloc(int owner, size_t bytes)
        {
            ++alloc_calls_;
            if (fail_at_ && alloc_calls_ == fail_at_)
            {
                log_.push_back({UpCall::alloc_array, owner, bytes, 1, 16, nullptr, seq_++, true});
                throw injected_oom(alloc_calls_);
            }
        }
        void foreign_alloc(int owner, char* p, size_t bytes)
        {
            out_.push_back({p, bytes, owner, true, bytes, 1, 16, seq_, 16});
            log_.push_back({UpCall::alloc_array, owner, bytes, 1, 16, p, seq_++, false});
        }
        void foreign_dealloc(int owner, char* p, size_t bytes)
        {
            log_.push_back({UpCall::dealloc_array, owner, bytes, 1, 16, p, seq_++, false});
            for (size_t i = out_.size(); i-- > 0;)
            {
                auto& b = out_[i];
                if (b.addr != p || b.owner >= 100000)
                    continue;
                if (b.bytes != bytes)
                    last_error_ = "block returned with a different size than it was obtained with";
                else if (b.owner != owner)
                    last_error_ = "block returned through a different allocator object";
                for (size_t j = i + 1; j < out_.size(); ++j)
                    if (out_[j].owner == owner)
                    {
                        lifo_violations_++;
                        break;
                    }
                out_.erase(out_.begin() + long(i));
                return;
            }
            last_error_ = "return of a block that is not outstanding";
        }

        const SlabBlock* find_block(const void* p) const
        {
            for (auto& b : out_)
                if (b.addr == p)
                    return &b;
            return nullptr;
        }
        uint64_t next_seq()
        {
            return seq_++;
        }
        const std::vector<SlabBlock>& outstanding() const
        {
            return out_;
        }
        const std::vector<UpCall>& log() const
        {
            return log_;
        }
        const char* last_error() const
        {
            return last_error_;
        }
        void clear_error()
        {
            last_error_      = nullptr;
            lifo_violations_ = 0;
        }
        unsigned lifo_violations() const
        {
            return lifo_violations_;
        }
        size_t outstanding_of(int owner) const
        {
            size_t n = 0;
            for (auto& b : out_)
                n += b.owner == owner;
            return n;
        }
        bool in_outstanding(int owner, const char* p, size_t n) const
        {
            for (auto& b : out_)
                if ((owner < 0 || b.owner == owner) && p >= b.addr && p + n <= b.addr + b.bytes)
                    return true;
            return false;
        }
        bool in_slab(const void* p) const
        {
            auto c = static_cast<const char*>(p);
            return (c >= mem_ && c < mem_ + total_size) || (c >= far_[0] && c < far_[0] + far_size)
                   || (c >= far_[1] && c < far_[1] + far_size);
        }
        unsigned policy() const
        {
            return policy_;
        }

    private:
        Slab() = default;
        char *                 mem_ = nullptr, *lo_ = nullptr, *hi_ = nullptr;
        char *                 up_ = nullptr, *down_ = nullptr, *obj_lo_ = nullptr, *obj_hi_ = nullptr;
        char *                 touched_lo_ = nullptr, *touched_hi_ = nullptr;
        char *                 far_[2] = {nullptr, nullptr}, *far_up_[2] = {nullptr, nullptr};
        unsigned               far_next_ = 0;
        unsigned               policy_ = 0;
        size_t                 gap_    = 64, skew_ = 0;
        uint64_t               seq_    = 0;
        unsigned               fail_at_ = 0, alloc_calls_ = 0, lifo_violations_ = 0;
        std::vector<SlabBlock> out_, free_;
        std::vector<UpCall>    log_;
        const char*            last_error_ = nullptr;
    };

    // The RawAllocator handed to the library. Stateful (owner id), cheap to copy/move.
    class SlabAlloc
    {
    public:
        using is_stateful = std::true_type;
        explicit SlabAlloc(int owner = 0) noexcept : owner_(owner) {}

        void* allocate_node(std::size_t size, std::size_t alignment)
        {
            return Slab::get().allocate(owner_, false, 1, size, alignment);
        }
        void* allocate_array(std::size_t count, std::size_t size, std::size_t alignment)
        {
            return Slab::get().allocate(owner_, true, count, size, alignment);
        }
        void deallocate_node(void* p, std::size_t size, std::size_t alignment) noexcept
        {
            Slab::get().deallocate(owner_, false, p, 1, size, alignment);
        }
        void deallocate_array(void* p, std::size_t count, std::size_t size,
                              std::size_t alignment) noexcept
        {
            Slab::get().deallocate(owner_, true, p, count, size, alignment);
        }
        std::size_t max_node_size() const noexcept
        {
            return std::size_t(1) << 40;
        }
        std::size_t max_array_size() const noexcept
        {
            return std::size_t(1) << 40;
        }
        std::size_t max_alignment() const noexcept
        {
            return 4096;
        }
        int owner() const noexcept
        {
            return owner_;
        }

    private:
        int owner_;
    };
} // namespace vf
