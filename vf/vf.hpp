// vf.hpp — core of the /verif property-based-testing framework.
//
// One intermediate representation (the *program*: header params + op list of small unsigned
// integers), one interpreter per target, three front ends (rapidcheck, libFuzzer, text replay).
// See DESIGN.md §3.
#pragma once
#include <cstdint>
#include <cstdio>
#include <cstdlib>
#include <cstring>
#include <map>
#include <set>
#include <sstream>
#include <string>
#include <unordered_set>
#include <vector>

namespace vf
{
    struct Op
    {
        uint32_t kind = 0, a = 0, b = 0, c = 0;
    };

    struct Program
    {
        std::vector<uint32_t> params;
        std::vector<Op>       ops;
        // optional "# subject=<name>" line of the text form: pins the subject by name so that a
        // saved program keeps its meaning when the subject catalogue grows (params[0] is an index)
        std::string hint;
    };

    struct KindSpec
    {
        const char* name;
        unsigned    weight; // 0 = never generated (still replayable)
    };

    // what a target publishes for one property ("mode")
    struct Spec
    {
        std::string           target;
        std::string           property;
        unsigned              nparams = 0;
        unsigned              max_ops = 200;
        std::vector<KindSpec> kinds;
        std::string           rule; // the non-trivial rule, in words (copied into the evidence)
    };

    struct Verdict
    {
        bool        ok = true;
        std::string signature; // stable id of the oracle that fired (known-finding matching)
        std::string message;
        static Verdict pass()
        {
            return {};
        }
        static Verdict fail(std::string sig, std::string msg)
        {
            Verdict v;
            v.ok        = false;
            v.signature = std::move(sig);
            v.message   = std::move(msg);
            return v;
        }
    };

    // per-case information the interpreter reports back for the evidence
    struct CaseInfo
    {
        bool                  nontrivial = false;
        std::set<std::string> classes;  // free-form class labels ("growth", "move", "array"...)
        std::string           subject;  // e.g. "P-node/grow2"
        unsigned              effective_ops = 0;
        unsigned              noops         = 0;
        std::map<std::string, uint64_t> counters; // additive counters
    };

    // A target = interpreter for programs. One per harness binary.
    struct Target
    {
        virtual ~Target() {}
        virtual const char* name() const                                               = 0;
        virtual bool        spec(const std::string& property, Spec& out) const          = 0;
        virtual Verdict     run(const Spec& spec, const Program& p, CaseInfo& info)     = 0;
        // called once before the first case (e.g. map the slab)
        virtual void init(const std::string& /*config*/) {}
    };
    Target& the_target(); // defined by the target TU

    //=== text form (the replay file) ===//
    inline std::string to_text(const Spec& spec, const std::string& config, const Program& p)
    {
        std::ostringstream o;
        o << "# vf-program v1\n";
        o << "# property=" << spec.property << " target=" << spec.target << " config=" << config
          << "\n";
        if (!p.hint.empty())
            o << "# subject=" << p.hint << "\n";
        o << "params";
        for (auto v : p.params)
            o << ' ' << v;
        o << "\n";
        for (auto& op : p.ops)
        {
            const char* n = op.kind < spec.kinds.size() ? spec.kinds[op.kind].name : "?";
            o << "op " << n << ' ' << op.a << ' ' << op.b << ' ' << op.c << "\n";
        }
        return o.str();
    }

    struct TextHeader
    {
        std::string property, target, config;
    };

    inline bool parse_header(const std::string& text, TextHeader& h)
    {
        std::istringstream in(text);
        std::string        line;
        while (std::getline(in, line))
        {
            if (line.rfind("# property=", 0) == 0)
            {
                std::istringstream ls(line.substr(2));
                std::string        tok;
                while (ls >> tok)
                {
                    auto eq = tok.find('=');
                    if (eq == std::string::npos)
                        continue;
                    auto k = tok.substr(0, eq), v = tok.substr(eq + 1);
                    if (k == "property")
                        h.property = v;
                    else if (k == "target")
                        h.target = v;
                    else if (k == "config")
                        h.config = v;
                }
                return true;
            }
        }
        return false;
    }

    inline bool from_text(const Spec& spec, const std::string& text, Program& p, std::string& err)
    {
        std::istringstream in(text);
        std::string        line;
        p = Program{};
        while (std::getline(in, line))
        {
            if (line.rfind("# subject=", 0) == 0)
            {
                p.hint = line.substr(10);
                while (!p.hint.empty() && (p.hint.back() == ' ' || p.hint.back() == '\r'))
                    p.hint.pop_back();
            }
            if (line.empty() || line[0] == '#')
                continue;
            std::istringstream ls(line);
            std::string        w;
            ls >> w;
            if (w == "params")
            {
                uint32_t v;
                while (ls >> v)
                    p.params.push_back(v);
            }
            else if (w == "op")
            {
                std::string name;
                Op          op;
                ls >> name >> op.a >> op.b >> op.c;
                bool found = false;
                for (unsigned k = 0; k < spec.kinds.size(); ++k)
                    if (name == spec.kinds[k].name)
                    {
                        op.kind = k;
                        found   = true;
                        break;
                    }
                if (!found)
                {
                    err = "unknown op kind '" + name + "'";
                    return false;
                }
                p.ops.push_back(op);
            }
        }
        p.params.resize(spec.nparams, 0);
        return true;
    }

    inline uint64_t hash_program(const Program& p)
    {
        uint64_t h   = 1469598103934665603ull;
        auto     mix = [&](uint32_t v)
        {
            for (int i = 0; i < 4; ++i)
            {
                h ^= (v >> (8 * i)) & 0xff;
                h *= 1099511628211ull;
            }
        };
        for (auto v : p.params)
            mix(v);
        mix(0xffffffffu);
        for (auto& o : p.ops)
        {
            mix(o.kind);
            mix(o.a);
            mix(o.b);
            mix(o.c);
        }
        return h;
    }

    //=== statistics for the evidence ===//
    struct Stats
    {
        uint64_t                           cases = 0, nontrivial = 0, discarded = 0;
        std::unordered_set<uint64_t>       distinct_nontrivial;
        std::unordered_set<uint64_t>       distinct_all;
        std::map<std::string, uint64_t>    classes;   // number of cases having the class
        std::map<std::string, uint64_t>    subjects;  // cases per subject
        std::map<std::string, uint64_t>    counters;  // summed counters
        std::map<std::string, uint64_t>    opkinds;   // generated op kinds
        std::vector<std::string>           samples;   // program texts (non-trivial ones first)
        uint64_t                           total_ops = 0, noops = 0;
        bool                               frozen = false; // set once shrinking started

        void add(const Spec& spec, const std::string& config, const Program& p, const CaseInfo& ci)
        {
            if (frozen)
                return;
            ++cases;
            auto h = hash_program(p);
            distinct_all.insert(h);
            total_ops += p.ops.size();
            noops += ci.noops;
            for (auto& o : p.ops)
                if (o.kind < spec.kinds.size())
                    ++opkinds[spec.kinds[o.kind].name];
            for (auto& c : ci.classes)
                ++classes[c];
            if (!ci.subject.empty())
                ++subjects[ci.subject];
            for (auto& kv : ci.counters)
                counters[kv.first] += kv.second;
            if (ci.nontrivial)
            {
                ++nontrivial;
                bool fresh = distinct_nontrivial.insert(h).second;
                // keep a few samples: the first three non-trivial ones and then every 2^k-th
                if (fresh && (samples.size() < 2 || (samples.size() < 4 && p.ops.size() <= 40
                                                     && (nontrivial & (nontrivial - 1)) == 0)))
                    samples.push_back(to_text(spec, config, p));
            }
        }
    };

    inline std::string json_escape(const std::string& s)
    {
        std::string o;
        for (unsigned char c : s)
        {
            switch (c)
            {
            case '"':
                o += "\\\"";
                break;
            case '\\':
                o += "\\\\";
                break;
            case '\n':
                o += "\\n";
                break;
            case '\t':
                o += "\\t";
                break;
            default:
                if (c < 0x20)
                {
                    char b[8];
                    std::snprintf(b, sizeof b, "\\u%04x", c);
                    o += b;
                }
                else
                    o += char(c);
            }
        }
        return o;
    }

    inline std::string stats_json(const Stats& s, const Spec& spec, const std::string& config)
    {
        std::ostringstream o;
        auto               dump_map = [&](const char* key, const std::map<std::string, uint64_t>& m)
        {
            o << "\"" << key << "\":{";
            bool first = true;
            for (auto& kv : m)
            {
                if (!first)
                    o << ',';
                first = false;
                o << "\"" << json_escape(kv.first) << "\":" << kv.second;
            }
            o << "}";
        };
        o << "{\"property\":\"" << spec.property << "\",\"target\":\"" << spec.target
          << "\",\"config\":\"" << config << "\",\"rule\":\"" << json_escape(spec.rule) << "\",";
        o << "\"cases\":" << s.cases << ",\"nontrivial\":" << s.nontrivial
          << ",\"distinct_nontrivial\":" << s.distinct_nontrivial.size()
          << ",\"distinct_cases\":" << s.distinct_all.size() << ",\"total_ops\":" << s.total_ops
          << ",\"noops\":" << s.noops << ",";
        o << "\"nontrivial_hashes\":[";
        {
            bool first = true;
            size_t listed = 0;
            for (auto h : s.distinct_nontrivial)
            {
                if (++listed > 200000)
                    break; // the driver counts the union of the listed hashes: a lower bound
                if (!first)
                    o << ',';
                first = false;
                o << "\"" << std::hex << h << std::dec << "\"";
            }
        }
        o << "],";
        dump_map("classes", s.classes);
        o << ',';
        dump_map("subjects", s.subjects);
        o << ',';
        dump_map("counters", s.counters);
        o << ',';
        dump_map("opkinds", s.opkinds);
        o << ",\"samples\":[";
        for (size_t i = 0; i < s.samples.size(); ++i)
        {
            if (i)
                o << ',';
            o << "\"" << json_escape(s.samples[i]) << "\"";
        }
        o << "]}";
        return o.str();
    }

    inline bool read_file(const std::string& path, std::string& out)
    {
        FILE* f = std::fopen(path.c_str(), "rb");
        if (!f)
            return false;
        char   buf[65536];
        size_t n;
        out.clear();
        while ((n = std::fread(buf, 1, sizeof buf, f)) > 0)
            out.append(buf, n);
        std::fclose(f);
        return true;
    }

    inline bool write_file(const std::string& path, const std::string& s)
    {
        FILE* f = std::fopen(path.c_str(), "wb");
        if (!f)
            return false;
        std::fwrite(s.data(), 1, s.size(), f);
        std::fclose(f);
        return true;
    }

    // The exclusions of recorded findings are switched off only for the probe programs under
    // /verif/known: the driver sets VF_ALLOW_KNOWN=<finding id> when it replays one of them. The switch
    // is deliberately not part of the program, so no generator or fuzzer can ever produce it.
    inline bool allow_known(const char* id)
    {
        const char* v = std::getenv("VF_ALLOW_KNOWN");
        return v && std::strcmp(v, id) == 0;
    }

    // small helpers used by interpreters: map arbitrary integers onto choices
    inline uint32_t pick(uint32_t v, uint32_t n)
    {
        return n ? v % n : 0;
    }
    template <typename T, size_t N>
    inline const T& pick_of(uint32_t v, const T (&arr)[N])
    {
        return arr[v % N];
    }
} // namespace vf
