"""C10, node-size part: generated-source sweep. The driver writes a TU that instantiates every
node-based container for element types Elem<S,A> with generated (size, alignment) pairs, compiles it
against the working tree and runs it. Oracle: the largest single-node request a container makes is
<= X_node_size<T>::value, and a memory_pool created with that value serves the container."""
import os
import random
import subprocess
import time

from . import build, run

HEADER = r'''
#include <cstring>
#include <cstdio>
#include <forward_list>
#include <list>
#include <map>
#include <set>
#include <unordered_map>
#include <unordered_set>
#include <foonathan/memory/container.hpp>
#include <foonathan/memory/memory_pool.hpp>
#include <foonathan/memory/smart_ptr.hpp>
#include <foonathan/memory/std_allocator.hpp>
namespace fm = foonathan::memory;
template <std::size_t S, std::size_t A>
struct alignas(A) Elem
{
    unsigned char b[S];
    Elem(int v = 0) { std::memset(b, 0, S); b[0] = static_cast<unsigned char>(v); }
    bool operator<(const Elem& o) const { return std::memcmp(b, o.b, S) < 0; }
    bool operator==(const Elem& o) const { return std::memcmp(b, o.b, S) == 0; }
};
namespace std { template <std::size_t S, std::size_t A> struct hash<Elem<S, A>> {
    std::size_t operator()(const Elem<S, A>& e) const noexcept { return e.b[0]; } }; }
// logging RawAllocator: remembers the largest single-node request
struct MaxLeaf
{
    using is_stateful = std::true_type;
    std::size_t* max_node;
    explicit MaxLeaf(std::size_t* m) : max_node(m) {}
    void* allocate_node(std::size_t size, std::size_t) { if (size > *max_node) *max_node = size; return ::operator new(size); }
    void* allocate_array(std::size_t c, std::size_t s, std::size_t) { return ::operator new(c * s); }
    void deallocate_node(void* p, std::size_t, std::size_t) noexcept { ::operator delete(p); }
    void deallocate_array(void* p, std::size_t, std::size_t, std::size_t) noexcept { ::operator delete(p); }
};
static int failures = 0, checks = 0;
template <class MakeWithLeaf, class MakeWithPool>
void check(const char* cont, std::size_t S, std::size_t A, std::size_t node_size, MakeWithLeaf with_leaf, MakeWithPool with_pool)
{
    ++checks;
    std::size_t max_node = 0;
    { MaxLeaf leaf(&max_node); with_leaf(leaf); }
    if (max_node > node_size)
    {
        ++failures;
        std::printf("FAIL %s S=%zu A=%zu node_size=%zu largest_request=%zu\n", cont, S, A, node_size, max_node);
        return;
    }
    try
    {
        fm::memory_pool<fm::node_pool> pool(node_size, 1 << 16);
        with_pool(pool);
    }
    catch (fm::bad_allocation_size& e)
    {
        ++failures;
        std::printf("FAIL %s S=%zu A=%zu node_size=%zu pool refused: passed=%zu supported=%zu\n", cont, S, A, node_size,
                    e.passed_value(), e.supported_value());
        return;
    }
    std::printf("OK %s S=%zu A=%zu node_size=%zu largest_request=%zu\n", cont, S, A, node_size, max_node);
}
#define SEQ(NAME, CONT, INS)                                                                                   \
    check(#NAME, S, A, fm::NAME##_node_size<T>::value,                                                       \
          [](MaxLeaf& l) { CONT<T, fm::std_allocator<T, MaxLeaf>> c{fm::std_allocator<T, MaxLeaf>(l)}; for (int i = 0; i < 5; ++i) c.INS(T(i)); }, \
          [](fm::memory_pool<fm::node_pool>& p) { using SA = fm::std_allocator<T, fm::memory_pool<fm::node_pool>>; CONT<T, SA> c{SA(p)}; for (int i = 0; i < 5; ++i) c.INS(T(i)); })
#define SET(NAME, CONT, ...)                                                                                   \
    check(#NAME, S, A, fm::NAME##_node_size<T>::value,                                                       \
          [](MaxLeaf& l) { CONT<T, __VA_ARGS__, fm::std_allocator<T, MaxLeaf>> c{fm::std_allocator<T, MaxLeaf>(l)}; for (int i = 0; i < 5; ++i) c.insert(T(i)); }, \
          [](fm::memory_pool<fm::node_pool>& p) { using SA = fm::std_allocator<T, fm::memory_pool<fm::node_pool>>; CONT<T, __VA_ARGS__, SA> c{SA(p)}; for (int i = 0; i < 5; ++i) c.insert(T(i)); })
#define MAP(NAME, CONT, ...)                                                                                   \
    check(#NAME, S, A, fm::NAME##_node_size<VT>::value,                                                      \
          [](MaxLeaf& l) { CONT<int, T, __VA_ARGS__, fm::std_allocator<VT, MaxLeaf>> c{fm::std_allocator<VT, MaxLeaf>(l)}; for (int i = 0; i < 5; ++i) c.insert({i, T(i)}); }, \
          [](fm::memory_pool<fm::node_pool>& p) { using SA = fm::std_allocator<VT, fm::memory_pool<fm::node_pool>>; CONT<int, T, __VA_ARGS__, SA> c{SA(p)}; for (int i = 0; i < 5; ++i) c.insert({i, T(i)}); })
template <std::size_t S, std::size_t A>
void all()
{
    using T  = Elem<S, A>;
    using VT = std::pair<const int, T>;
    SEQ(forward_list, std::forward_list, push_front);
    SEQ(list, std::list, push_back);
    SET(set, std::set, std::less<T>);
    SET(multiset, std::multiset, std::less<T>);
    SET(unordered_set, std::unordered_set, std::hash<T>, std::equal_to<T>);
    SET(unordered_multiset, std::unordered_multiset, std::hash<T>, std::equal_to<T>);
    MAP(map, std::map, std::less<int>);
    MAP(multimap, std::multimap, std::less<int>);
    MAP(unordered_map, std::unordered_map, std::hash<int>, std::equal_to<int>);
    MAP(unordered_multimap, std::unordered_multimap, std::hash<int>, std::equal_to<int>);
    check("allocate_shared", S, A, fm::allocate_shared_node_size<T, MaxLeaf>::value,
          [](MaxLeaf& l) { auto sp = fm::allocate_shared<T>(l, 1); (void)sp; },
          [](fm::memory_pool<fm::node_pool>& p) { auto sp = fm::allocate_shared<T>(p, 1); (void)sp; });
}
'''


def all_pairs():
    return [(s, a) for a in (1, 2, 4, 8, 16) for s in range(1, 129) if s % a == 0]


def pick_pairs(tier):
    pairs = all_pairs()
    if tier == "thorough":
        return pairs
    rnd = random.Random(run.seed())
    boundary = [(1, 1), (2, 2), (3, 1), (4, 4), (7, 1), (8, 8), (9, 1), (12, 4), (16, 16), (17, 1),
                (24, 8), (32, 16), (33, 1), (48, 16), (64, 16), (127, 1), (128, 16)]
    rest = [p for p in pairs if p not in boundary]
    return boundary + rnd.sample(rest, 24 - len(boundary) if len(boundary) < 24 else 7)


def gen_tu(pairs, path):
    with open(path, "w") as f:
        f.write(HEADER)
        f.write("int main()\n{\n")
        for s, a in pairs:
            f.write("    all<%d, %d>();\n" % (s, a))
        f.write('    std::printf("DONE checks=%d failures=%d\\n", checks, failures);\n    return failures ? 1 : 0;\n}\n')


def sweep(prop, tier, workdir):
    """-> (violations [(path, sig, config, msg)], info)"""
    t0 = time.time()
    pairs = pick_pairs(tier)
    chunks = [pairs] if tier == "quick" else [pairs[i::8] for i in range(8)]
    violations, info = [], {"pairs": len(pairs), "configs": {}}
    samples = []
    for config in ("base",):
        cfgdir = build.gen_config_dir(config)
        flags = build.flags_for(config, cfgdir)
        lib_futs, _, _ = build.build_library(config)
        lib_objs = [f.result() for f in lib_futs]
        jobs = []
        for k, chunk in enumerate(chunks):
            src = os.path.join(workdir, "nodesizes_%s_%d.cpp" % (config, k))
            gen_tu(chunk, src)
            jobs.append((src, build.pool().submit(build.compile_tu, src, flags, False)))
        checks = fails = 0
        for src, fut in jobs:
            try:
                obj = fut.result()
            except build.BuildError as e:
                errs = [l for l in e.log.splitlines() if "error" in l][:5]
                violations.append((src, "%s|nodesize|does-not-compile" % prop, config, "\n".join(errs)))
                continue
            exe = build.link(lib_objs + [obj], "nodesizes-%s" % os.path.basename(src)[:-4], config)
            r = subprocess.run([exe], capture_output=True, text=True, env=run.env_for())
            lines = r.stdout.splitlines()
            oks = [l for l in lines if l.startswith("OK ")]
            bad = [l for l in lines if l.startswith("FAIL ")]
            checks += len(oks) + len(bad)
            fails += len(bad)
            samples += oks[:2]
            if bad or r.returncode not in (0, 1):
                msg = "\n".join(bad[:8]) or r.stderr[-800:]
                violations.append((src, "%s|nodesize|%s" % (prop, "too-small" if bad else "crash"), config, msg))
        info["configs"][config] = {"checks": checks, "failures": fails}
    info["wall_s"] = round(time.time() - t0, 1)
    info["samples"] = samples[:6]
    info["nontrivial_checks"] = sum(1 for s, a in pairs if s % 8 != 0) * 11
    info["checks_total"] = sum(v["checks"] for v in info["configs"].values())
    return violations, info
