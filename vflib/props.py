"""Property table: which target / configurations / budgets decide each property."""

HIST3 = ["rel", "base", "dbg"]


def prog(target, configs, quick, thorough, rule="", assumptions=None):
    return dict(kind="prog", target=target, configs=configs, quick=quick, thorough=thorough,
                rule=rule, assumptions=assumptions or [])


def q(shards, cases, size):
    return dict(shards=shards, cases=cases, size=size)


def t(shards, cases, size, fuzz_s=0, fuzz_jobs=4):
    return dict(shards=shards, cases=cases, size=size, fuzz_s=fuzz_s, fuzz_jobs=fuzz_jobs)


COMMON_ASSUME = [
    "generated histories respect the documented contracts (DESIGN.md section 4)",
    "clang 14 / libstdc++ / x86-64 only; ASan+UBSan builds of the library from the working tree",
    "exploration: absence of a violation in the explored cases is not a proof",
]

from . import pure  # noqa: E402
from . import nodesizes  # noqa: E402


def custom(mod, assumptions=None):
    return dict(kind="custom", run=mod.check, replay=mod.replay, setup=mod.setup,
                assumptions=assumptions or COMMON_ASSUME)


PROPS = {
    "C01": prog("hist", HIST3, q(5, 8000, 120), t(5, 40000, 200, 120), assumptions=COMMON_ASSUME),
    "C02": prog("hist", HIST3, q(5, 8000, 120), t(5, 40000, 200, 120), assumptions=COMMON_ASSUME),
    "C03": prog("hist", HIST3, q(5, 8000, 100), t(5, 40000, 160, 120), assumptions=COMMON_ASSUME),
    "C04": prog("hist", HIST3, q(5, 8000, 120), t(5, 40000, 200, 120), assumptions=COMMON_ASSUME),
    "C05": prog("hist", HIST3, q(5, 8000, 120), t(5, 40000, 200, 120), assumptions=COMMON_ASSUME),
    "C06": prog("hist", HIST3, q(5, 8000, 120), t(5, 40000, 200, 120), assumptions=COMMON_ASSUME),
    "C07": prog("hist", HIST3, q(5, 8000, 120), t(5, 40000, 200, 120), assumptions=COMMON_ASSUME),
    "C08": dict(kind="prog", parts=[dict(target="hist", configs=HIST3),
                                   dict(target="comp", configs=["rel", "base", "dbg"],
                                        quick=dict(shards=5, cases=12000, size=80),
                                        thorough=dict(shards=6, cases=80000, size=80))],
                quick=q(5, 8000, 100), thorough=t(5, 40000, 160, 120), assumptions=COMMON_ASSUME),
    "C09": dict(kind="prog", parts=[dict(target="comp", configs=["rel", "base", "dbg"])],
                probes=dict(glob="targets/probes/*.cpp", configs=["base"]),
                quick=q(8, 16000, 80), thorough=t(8, 100000, 80, 120), assumptions=COMMON_ASSUME),
    "C10": dict(kind="prog", parts=[dict(target="cont", configs=["rel", "base", "dbg"])], extra=nodesizes.sweep,
                rule=">= 1 cross-allocator copy/move assignment, swap or allocator-extended copy while both containers "
                     "are non-empty and >= 20 insertions; for the generated-source node-size sweep every (container, "
                     "size, alignment) triple is a case, non-trivial if the size is not a multiple of 8.",
                quick=q(8, 6000, 80), thorough=t(8, 40000, 80, 120), assumptions=COMMON_ASSUME),
    "C11": dict(kind="prog", parts=[dict(target="obj", configs=["rel", "base", "dbg"])],
                quick=q(8, 10000, 30), thorough=t(8, 60000, 30, 120), assumptions=COMMON_ASSUME),
    "C20": dict(kind="prog", parts=[dict(target="obj", configs=["rel", "base", "dbg"])],
                quick=q(8, 8000, 24), thorough=t(8, 40000, 24, 120), assumptions=COMMON_ASSUME),
    "C12": prog("hist", HIST3, q(5, 8000, 100), t(5, 40000, 160, 120), assumptions=COMMON_ASSUME),
    "C13": dict(kind="prog", parts=[dict(target="thr", configs=["base", "dbg"])],
                quick=q(8, 3000, 40), thorough=t(8, 20000, 40, 60), assumptions=COMMON_ASSUME),
    "C14": dict(kind="prog", parts=[dict(target="thr", configs=["base", "dbg", "tsm1"])],
                quick=q(6, 2500, 60), thorough=t(8, 25000, 60, 0), assumptions=COMMON_ASSUME),
    "C15": prog("hist", ["base", "dbg"], q(5, 3000, 100), t(8, 25000, 120, 120), assumptions=COMMON_ASSUME),
    "C19": custom(pure),
    "C16": prog("hist", ["base", "dbg"], q(6, 2500, 100), t(8, 7000, 160, 120), assumptions=COMMON_ASSUME),
    "C17": dict(kind="prog", parts=[dict(target="hist", configs=["base", "dbg"]),
                                   dict(target="fence", configs=["base", "dbg", "dbg16"],
                                        quick=dict(shards=4, cases=30000, size=24),
                                        thorough=dict(shards=5, cases=300000, size=24))],
                quick=q(6, 6000, 100), thorough=t(6, 30000, 160, 120), assumptions=COMMON_ASSUME),
    "C18": prog("hist", HIST3, q(5, 8000, 100), t(5, 40000, 160, 120), assumptions=COMMON_ASSUME),
}
