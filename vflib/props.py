"""Property table: which target / configurations / budgets decide each property."""

HIST3 = ["rel", "base", "dbg"]


def prog(target, configs, quick, thorough, rule="", assumptions=None):
    return dict(kind="prog", target=target, configs=configs, quick=quick, thorough=thorough,
                rule=rule, assumptions=assumptions or [])


def q(shards, cases, size):
    return dict(shards=shards, cases=cases, size=size)


def t(shards, cases, size, fuzz_s=0, fuzz_jobs=4):
    return dict(shards=shards, cases=cases, size=size, fuzz_s=fuzz_s, fuzz_jobs=fuzz_jobs)


COMMON_ASSUME = [
    "generated histories respect the documented contracts (DESIGN.md section 4)",
    "clang 14 / libstdc++ / x86-64 only; ASan+UBSan builds of the library from the working tree",
    "exploration: absence of a violation in the explored cases is not a proof",
]

PROPS = {
    "C01": prog("hist", HIST3, q(5, 3000, 120), t(5, 40000, 200, 120),
                "history with >=8 successful allocations, >=1 release between two allocations, and "
                "one of: upstream growth / array and node live together / >=2 buckets used / a move "
                "with >=3 live allocations.", COMMON_ASSUME),
}
