"""MANIFEST.setup_cmd: build every configuration of every target once so that the first check
does not pay for it (checks rebuild incrementally from the working tree anyway)."""
import time

from . import build
from .props import PROPS


def run_setup():
    t0 = time.time()
    done = set()
    for pid, spec in sorted(PROPS.items()):
        if spec["kind"] != "prog":
            if "setup" in spec:
                spec["setup"](pid, spec)
                print("set up %s (%.0fs)" % (pid, time.time() - t0), flush=True)
            continue
        parts = spec.get("parts") or [dict(target=spec["target"], configs=spec["configs"])]
        for part in parts:
            for c in part["configs"]:
                key = (part["target"], c)
                if key in done:
                    continue
                done.add(key)
                build.build_target(part["target"], c, want_fuzzer=True)
                print("built %s/%s (%.0fs)" % (part["target"], c, time.time() - t0), flush=True)
    print("setup done in %.0fs" % (time.time() - t0))
    return 0
