"""Per-property texts for MANIFEST.json"""
HIST_NOTE = ("Trusted: the shadow model / slab upstream in /verif (targets/hist_run.cpp, vf/slab.hpp), "
             "clang 14 ASan+UBSan, rapidcheck. Histories are bounded (<=200 ops quick, <=200 ops x more cases "
             "thorough), sizes <=64 KiB, subjects are a catalogue of 68 allocator x block-source instantiations in "
             "3 build configurations; upstream blocks are placed by five generated layouts (ascending, descending, "
             "adjacent, reuse, windows 3 GiB apart). Absence of a violation is not a proof.")


def hist(level, ref, technique):
    return dict(engine="hist", level=level, ref=ref, note=HIST_NOTE, technique=technique)


TEXT = {
    "C01": hist("Generated allocator histories run against the real library under a byte-exact shadow model "
                "(disjointness, containment in lent upstream blocks, per-allocation pattern) in rel/base/dbg.",
                "DESIGN.md 5/C01", "stateful PBT (rapidcheck) + libFuzzer over a program interpreter; shadow-model oracle"),
    "C02": hist("Every returned pointer is checked for the requested alignment and its full byte range is written "
                "and read back inside guarded upstream blocks; position classes are measured.",
                "DESIGN.md 5/C02", "stateful PBT + fuzzing; alignment/usable-range oracle over generated requests"),
    "C03": hist("Oversize requests, exhaustion histories and injected upstream faults; exception family, handler "
                "call, null returns, try_ functions never growing, continued service, unchanged upstream request "
                "on a retry after an injected failure, and no invalid-pointer report on later valid releases are checked.",
                "DESIGN.md 5/C03", "stateful PBT + fault injection at generated upstream call positions"),
    "C04": hist("Capacity conservation over fully released segments, allocate/release cycles, premature growth, "
                "and (guarded hook) structural free-list walks after every operation.",
                "DESIGN.md 5/C04", "stateful PBT; conservation/metamorphic cycle oracle + structural invariant hook"),
    "C05": hist("The logging upstream decides: every block returned exactly once with identical shape, in reverse "
                "order, none outstanding after destruction, also with injected upstream failures.",
                "DESIGN.md 5/C05", "stateful PBT with instrumented upstream (call-log invariant) + fault injection"),
    "C06": hist("Marker/unwind histories: capacity and top() restored, address replay metamorphic relation, "
                "older allocations intact, marker total order.",
                "DESIGN.md 5/C06", "stateful PBT; metamorphic address-replay oracle"),
    "C07": hist("iteration_allocator<1..5>: lifetime of exactly N iterations, disjoint regions, capacity restored "
                "on switch, for block sizes incl. size mod N != 0.",
                "DESIGN.md 5/C07", "stateful PBT; lifetime model + capacity invariants"),
    "C12": hist("Moves, move assignments (onto fresh and used targets), swaps and destruction/assignment of "
                "moved-from objects inserted at generated positions of a history; model and upstream balance continue; "
                "no invalid-pointer report through the new owner, no leak report from a moved-from object.",
                "DESIGN.md 5/C12", "stateful PBT with move operations; shadow model + upstream balance"),
    "C15": hist("Traits-level histories with moves; the recording leak handler must fire exactly once with the "
                "exact net at destruction, never otherwise; forked children run histories on one or two low-level "
                "allocators (a third of them on 3-4 threads) and their exit reports are compared with the nets.",
                "DESIGN.md 5/C15", "stateful PBT; handler-capture oracle against a net-bytes model"),
    "C18": hist("Counter deltas per operation against the model, attainability/tightness probes of "
                "capacity_left(), requests above the reported maxima.",
                "DESIGN.md 5/C18", "stateful PBT; counter-delta model + capacity probes"),
}

TEXT.update({
    "C08": dict(engine="hist+comp", ref="DESIGN.md 5/C08", note=HIST_NOTE,
                level="(a) two sibling allocators of the catalogue on one slab (zero-gap placement included): "
                      "try_deallocate of a sibling's live pointer must be rejected and change nothing; own pointers "
                      "accepted. (b) fallback compositions over logging leaves: every release reaches the leaf that "
                      "served the allocation with the same shape, across default-full/default-empty phases.",
                technique="stateful PBT; ownership oracle from the shadow model + logging-leaf call-log oracle"),
    "C09": dict(engine="comp", ref="DESIGN.md 5/C09",
                note="Trusted: logging leaves / slab in /verif. Compositions are a compile-time catalogue of 24 "
                     "(depth <= 3; leaves with the full interface, node-only, node-only composable, moving maxima) plus "
                     "typed helpers over a 9-type catalogue (also with a throwing element type and over a node-only "
                     "leaf), not all C++ programs; instantiation "
                     "probes cover member instantiability.",
                level="Adapter compositions over logging leaves: each user request reaches a leaf as exactly one "
                      "request (>= bytes, >= alignment), each release exactly once to the same leaf with identical "
                      "kind/count/size/alignment; trackers see each success once in the documented order; plus "
                      "compile-only instantiation probes of every adapter member.",
                technique="stateful PBT over a composition catalogue; call-log oracle in instrumented leaves; compile probes"),
    "C16": hist("A valid generated prefix history followed by one covered invalid release executed in a forked "
                "child (handler must see untouched capacity figures, or the child must abort): foreign / off-boundary / "
                "block-header pointers, the addresses one node before and after every run of nodes (learned by "
                "draining the bucket in a child, no layout knowledge), block edges, double frees by position, stale "
                "markers (from the history or made stale in the child), out-of-order block returns; valid histories "
                "in base/dbg must never trigger the invalid-pointer handler.",
                "DESIGN.md 5/C16", "stateful PBT + fork-per-bad-call fault injection; handler-capture oracle"),
    "C17": dict(engine="hist+fence", ref="DESIGN.md 5/C17", note=HIST_NOTE,
                level="Generated write sets into/around nodes of the four low-level allocators in fence 0/8/16 builds "
                      "(every offset inside the fence the allocator wrote - its extent, max_alignment or a page, is observed "
                      "per allocation, at least debug_fence_size -, every value != fence pattern); fill patterns of "
                      "fresh and released memory checked on every allocation/release of the history target.",
                technique="PBT over generated write sets; recording buffer-overflow handler + byte-pattern oracle"),
    "C19": dict(engine="pure", ref="DESIGN.md 5/C19",
                note="Trusted: the loop/division reference implementations in targets/pure.cpp.",
                level="Arithmetic helpers compared with definitional references: complete small domain and "
                      "boundary classes enumerated on every run, random 64-bit inputs on top; bucket selection for "
                      "every size of 8 maxima x 3 list types x 2 policies.",
                technique="exhaustive enumeration of a bounded domain + random PBT against a reference implementation"),
})

TEXT.update({
    "C10": dict(engine="cont", ref="DESIGN.md 5/C10",
                note="Trusted: logging leaves / slab in /verif; libstdc++ only. 12 container kinds x {typed, type-erased} "
                     "std_allocator, int / pair<const int,int> / char elements for the op sequences, plus vector/deque/list "
                     "with 12/20/24-byte elements over a node-only allocator and vector/list/map/deque over a copyable "
                     "allocator handle declared is_shared_allocator; element types "
                     "Elem<S,A> (S 1..128, A 1..16) for the generated node-size sweep.",
                level="Generated container op sequences (insert/erase/copy/move/assign/swap/splice across two allocator "
                      "objects) against a differential std::allocator reference; every release is validated by the "
                      "owning leaf; std_allocator equality compared with the observed owner. Plus a generated-source "
                      "sweep instantiating every node container for Elem<S,A> against X_node_size<T>.",
                technique="stateful PBT + differential oracle + generated-source type sweep"),
    "C11": dict(engine="obj", ref="DESIGN.md 5/C11",
                note="Trusted: logging leaf / slab. Catalogue of 17 joint types (one or two joint_arrays, vector, "
                     "vector+array+string, iterator-range arrays) with element sizes/alignments 1..16.",
                level="Joint objects created with generous, exact-fit and one-byte-short additional sizes at generated "
                      "address residues; member ranges, upstream shape, clean failure, single release, clone "
                      "independence checked; clone/move/swap/reset histories on three joint_ptrs; after construction "
                      "raw joint_allocator allocations/releases in any order and container operations (growth, "
                      "shrink_to_fit, swap with empty) with fit/refusal decided from the stack top, every live piece "
                      "byte-compared around each call.",
                technique="stateful PBT; layout validity predicate + upstream call-log oracle"),
    "C13": dict(engine="thr", ref="DESIGN.md 5/C13",
                note="Trusted: the instrumented mutex and allocator shell in targets/thr.cpp. The deterministic oracle "
                     "decides the mechanism for 4 storage policies, a stateful shell with data and an empty class that "
                     "declares itself stateful (alone and under tracked_allocator) and every forwarding member; free-running stress "
                     "samples schedules (no scheduler control inside std::mutex).",
                level="Instrumented mutex + allocator shell: at every entry into the wrapped allocator the storage's own "
                      "mutex must be held by the calling thread and released afterwards, for all forwarding members and "
                      "the lock() proxy; stateless allocators instantiate and lock nothing; free-running multi-threaded "
                      "phases with a concurrent-entry detector.",
                technique="PBT over member-call sequences with a lock-held invariant; multi-threaded stress"),
    "C14": dict(engine="thr", ref="DESIGN.md 5/C14",
                note="Trusted: the actor/scheduler harness in targets/thr.cpp; schedules are generated at operation "
                     "granularity and, through the guarded yield points in src/temporary_allocator.cpp, at the "
                     "shared-memory steps of the stack list; no preemption inside other library code.",
                level="Every case runs in a forked child: generated nestings of temporary_allocator scopes (address-replay "
                      "oracle) and generated schedules of 2-4 real threads (start / initializer / use / scope / exit as "
                      "scheduled steps) under a holding model (no two live threads on one stack, stacks reused), then a "
                      "normal process exit whose leak reports are captured; modes 2 and 1. With the yield hook installed "
                      "the schedule also chooses the interleaving inside create/adopt/clear/thread-exit of the stack list.",
                technique="stateful PBT over thread schedules (harness-owned scheduler) + fork-per-case exit observation"),
    "C20": dict(engine="obj", ref="DESIGN.md 5/C20",
                note="Trusted: the ledger element types and logging leaves (full interface and node-only) in targets/obj.cpp.",
                level="For each helper / joint_array constructor form and every length 0..16 the number of element "
                      "creations is measured (allocate_unique / allocate_shared with converting, default, copy and move "
                      "construction, for an element type whose constructors all may throw and for one with a noexcept "
                      "default constructor), then a constructor failure is injected at a generated index (first, last, "
                      "any): ledger (each object destroyed exactly once), exception identity, memory returned with "
                      "matching shape, helper usable afterwards.",
                technique="fault injection at generated constructor indices over a ledger-instrumented element type"),
})

NOT_APPLICABLE = {}
