"""C19: arithmetic helpers vs definitional references (targets/pure.cpp)."""
import json
import os
import shutil
import subprocess
import time

from . import build, run

CONFIGS = ["rel", "base", "dbg"]


def build_pure(config):
    lib_futs, cfgdir, flags = build.build_library(config)
    obj = build.pool().submit(build.compile_tu, os.path.join(build.VERIF, "targets/pure.cpp"), flags, False)
    objs = [f.result() for f in lib_futs] + [obj.result()]
    return build.link(objs, "pure", config, libs=["-lrapidcheck", "-lpthread"])


def setup(prop, spec):
    for c in CONFIGS:
        build_pure(c)


def replay(prop, spec, path):
    rc = 0
    for c in CONFIGS:
        exe = build_pure(c)
        r = subprocess.run([exe, "--replay", path], capture_output=True, text=True, env=run.env_for())
        print("config %s: %s" % (c, r.stdout.strip()[-600:]))
        if r.returncode != 0:
            rc = 1
    return rc


def check(prop, spec, tier):
    t0 = time.time()
    work = os.path.join(run.OUT, prop, "work")
    shutil.rmtree(work, ignore_errors=True)
    os.makedirs(work, exist_ok=True)
    shards = 8 if tier == "quick" else 12
    cases = 100000 if tier == "quick" else 400000
    procs = []
    exes = {c: build_pure(c) for c in CONFIGS}
    build_s = time.time() - t0
    for c in CONFIGS:
        d = os.path.join(work, c)
        os.makedirs(d, exist_ok=True)
        procs.append((c, "exhaustive", subprocess.Popen([exes[c], "--exhaustive", "--out", d],
                                                        stdout=subprocess.DEVNULL, stderr=subprocess.PIPE,
                                                        env=run.env_for())))
        for k in range(shards):
            s = run.derive_seed(run.seed(), prop, c, k)
            env = run.env_for({"RC_PARAMS": "seed=%d max_success=%d max_size=100" % (s, cases)})
            procs.append((c, "rc-%d" % k, subprocess.Popen([exes[c], "--rc", "--out", d, "--shard", str(k)],
                                                           stdout=subprocess.DEVNULL, stderr=subprocess.PIPE, env=env)))
    tot = dict(evaluations=0, nontrivial=0, excluded=0, distinct=0, per_fn={}, excluded_by={}, samples=[], per_config={})
    failures = []
    for c, tag, p in procs:
        _, err = p.communicate()
        sp = os.path.join(work, c, "pure-%s.json" % tag)
        st = None
        if os.path.exists(sp):
            st = json.load(open(sp))
            tot["evaluations"] += st["evaluations"]
            tot["nontrivial"] += st["nontrivial"]
            tot["excluded"] += st["excluded"]
            if tag == "exhaustive":
                # the enumerated domain is the same in every configuration: count it once
                tot["distinct"] = max(tot["distinct"], st.get("distinct_nontrivial", 0))
            for k, v in st["per_fn"].items():
                tot["per_fn"][k] = tot["per_fn"].get(k, 0) + v
            for k, v in st["excluded_by"].items():
                tot["excluded_by"][k] = tot["excluded_by"].get(k, 0) + v
            pc = tot["per_config"].setdefault(c, {"evaluations": 0})
            pc["evaluations"] += st["evaluations"]
            tot["samples"] += st["samples"][:2]
            for f in st["failures"]:
                failures.append((c, f))
        if p.returncode not in (0, 1) or (p.returncode == 1 and not (st and st["failures"])):
            # crash (sanitizer / assertion) while evaluating a pure function
            failures.append((c, "crash # " + run.crash_signature(prop, err.decode(errors="replace")) + " "
                             + err.decode(errors="replace")[-400:].replace("\n", " | ")))
    violations = []
    if failures:
        d = os.path.join(run.OUT, prop)
        os.makedirs(d, exist_ok=True)
        path = os.path.join(d, "violation-pure.txt")
        with open(path, "w") as f:
            f.write("# C19 mismatching cases: fn x a # expected/got\n")
            for c, line in failures[:40]:
                f.write("%s\n" % line if not line.startswith("crash") else "# [%s] %s\n" % (c, line))
        # confirm 3x by replay (crash-only failures have no case lines and are reported as they are)
        confirmed = all(replay_quiet(exes[failures[0][0]], path) for _ in range(3)) or \
            all(l.startswith("crash") for _, l in failures)
        if confirmed:
            violations.append(path)
    wall = time.time() - t0
    cov = {
        "evaluations": tot["evaluations"],
        "distinct_nontrivial": tot["distinct"],
        "nontrivial_evaluations": tot["nontrivial"],
        "rule": "each evaluation is one (function, x, alignment) input compared with a loop/division reference; "
                "domain = complete small domain x in 0..4096 with all 13 alignments <= 4096, boundary classes "
                "2^k-1, 2^k, 2^k+1, MAX-2^k(+1) for k in 0..63 with all 64 alignments (both enumerated completely on "
                "every run), bucket selection for every size 1..max for 8 maxima x 3 list types x 2 policies, plus "
                "random 64-bit values (rapidcheck). Non-trivial: x is not a power of two (and alignment > 1 where an "
                "alignment is involved). distinct_nontrivial counts distinct (function, x, alignment) triples of the enumerated "
                "domains only, measured with a hash set in one configuration (random cases and the second "
                "configuration are not added: conservative).",
        "samples": tot["samples"][:8] or ["round_up 4095 16"],
        "per_function": tot["per_fn"],
        "per_config": tot["per_config"],
        "excluded_inputs": tot["excluded"],
        "excluded_by_reason": tot["excluded_by"],
        "exhaustive": False,
        "exhaustive_subdomains": ["x in 0..4096 x alignments 1..4096", "boundary classes around 2^k for k in 0..63 x 64 alignments",
                                  "bucket selection sizes 1..max for max in {8,9,64,100,255,256,1000,4096}"],
        "random_cases_per_shard": cases, "shards_per_config": shards,
        "build_s": round(build_s, 1),
    }
    run.write_evidence(prop, tier, "exploration", cov, wall, len(violations), spec.get("assumptions", []))
    for v in violations:
        print("VIOLATION property=%s replay=%s" % (prop, v))
        for c, line in failures[:6]:
            print("  | [%s] %s" % (c, line[:300]))
    print("%s %s: %d evaluations (%d non-trivial, %d excluded), %.0fs (build %.0fs)%s"
          % (prop, tier, tot["evaluations"], tot["nontrivial"], tot["excluded"], wall, build_s,
             "" if not violations else " — VIOLATIONS"))
    return 1 if violations else 0


def replay_quiet(exe, path):
    r = subprocess.run([exe, "--replay", path], capture_output=True, text=True, env=run.env_for())
    return r.returncode == 1
