"""Run layer: shards, crash pick-up, delta debugging, known findings, evidence."""
import glob
import hashlib
import json
import os
import re
import shutil
import subprocess
import sys
import time

from . import build

VERIF = build.VERIF
# sensitivity runs against scratch trees must not overwrite the real evidence / violation files
SCRATCH = os.environ.get("VERIF_SCRATCH")
OUT = os.path.join(SCRATCH, "out") if SCRATCH else os.path.join(VERIF, "out")
EVIDENCE_DIR = os.path.join(SCRATCH, "evidence") if SCRATCH else os.path.join(VERIF, "evidence")
KNOWN_FILE = os.path.join(VERIF, "known_findings.json")

RUN_ENV = {
    "ASAN_OPTIONS": "allocator_may_return_null=1:detect_leaks=0:exitcode=86:abort_on_error=0:"
                    "handle_abort=1:symbolize=1:detect_stack_use_after_return=0",
    "UBSAN_OPTIONS": "print_stacktrace=1:exitcode=86",
    "TSAN_OPTIONS": "exitcode=86:halt_on_error=1",
}


def env_for(extra=None):
    e = dict(os.environ)
    e.update(RUN_ENV)
    if extra:
        e.update(extra)
    return e


def seed():
    try:
        return int(os.environ.get("VERIF_SEED", "1"))
    except ValueError:
        return 1


def derive_seed(*parts):
    h = hashlib.sha1(("/".join(str(p) for p in parts)).encode()).digest()
    return int.from_bytes(h[:7], "big") + 1


def load_known():
    try:
        with open(KNOWN_FILE) as f:
            return json.load(f)
    except (OSError, ValueError):
        return {"findings": []}


def match_known(prop, signature):
    """-> entry or None. Only status=known suppresses; fixed entries suppress nothing."""
    for e in load_known().get("findings", []):
        if e.get("status") != "known" or e.get("property") != prop:
            continue
        if re.search(e["signature"], signature):
            return e
    return None


def crash_signature(prop, stderr_text):
    """signature of an abnormal termination: first library frame / assertion site"""
    m = re.search(r"Assertion failure in function\s+(\S+).*?\((.*?):(\d+)\)", stderr_text)
    if m:
        return "%s|crash|assert:%s:%s" % (prop, os.path.basename(m.group(2)), m.group(1))
    m = re.search(r"Unreachable code reached in function\s+(\S+)", stderr_text)
    if m:
        return "%s|crash|unreachable:%s" % (prop, m.group(1))
    kind = "abort"
    m = re.search(r"(AddressSanitizer|UndefinedBehaviorSanitizer|ThreadSanitizer): ([\w-]+)", stderr_text)
    if m:
        kind = m.group(2)
    if "runtime error:" in stderr_text:
        kind = "ub"
    repo = build.repo_root().rstrip("/")
    for line in stderr_text.splitlines():
        m = re.match(r"\s*#\d+ 0x[0-9a-f]+ in (.+?) (%s/(?:include|src)/\S+?):(\d+)" % re.escape(repo), line)
        if m:
            func = re.sub(r"\(.*", "", m.group(1))
            func = re.sub(r"<.*", "", func)
            return "%s|crash|%s:%s:%s" % (prop, kind, os.path.basename(m.group(2)), func.split("::")[-1])
    return "%s|crash|%s:unknown" % (prop, kind)


class Outcome:
    def __init__(self, kind, signature="", message="", text="", subject=""):
        self.kind = kind  # "pass" | "fail" | "crash" | "hang"
        self.signature = signature
        self.message = message
        self.text = text
        self.subject = subject


def replay_text(exe, prop, config, text, workdir, timeout=60, allow_known=None):
    os.makedirs(workdir, exist_ok=True)
    path = os.path.join(workdir, "replay-%d.prog" % os.getpid())
    with open(path, "w") as f:
        f.write(text)
    m = re.search(r"^# allow-known=(\S+)", text, re.M)
    if m and allow_known is None:
        allow_known = m.group(1)
    try:
        r = subprocess.run([exe, "--prop", prop, "--config", config, "--replay", path],
                           capture_output=True, text=True,
                           env=env_for(dict({"VF_ECHO_SUBJECT": "1"},
                                            **({"VF_ALLOW_KNOWN": allow_known} if allow_known else {}))),
                           timeout=timeout, errors="replace")
    except subprocess.TimeoutExpired:
        # a single case normally takes milliseconds; not finishing within the (generous) timeout
        # is reported as a hang and has to reproduce 3x like everything else
        return Outcome("hang", prop + "|hang", "replay did not finish within %ds" % timeout, text)
    ms = re.search(r"REPLAY subject=(\S+)", r.stdout) or re.search(r"^VF-SUBJECT (\S+)", r.stderr, re.M)
    subj = ms.group(1) if ms else ""
    if r.returncode == 0:
        return Outcome("pass", message=r.stdout, subject=subj)
    if r.returncode == 1:
        m = re.search(r"FAIL signature=(.*)\n(.*)", r.stdout)
        return Outcome("fail", m.group(1) if m else prop + "|?", m.group(2) if m else r.stdout, text, subj)
    return Outcome("crash", crash_signature(prop, r.stderr), r.stderr[-3000:], text, subj)


def split_program(text):
    head, ops = [], []
    for line in text.splitlines():
        (ops if line.startswith("op ") else head).append(line)
    return head, ops


def join_program(head, ops):
    return "\n".join(head + ops) + "\n"


def ddmin(exe, prop, config, text, want_sig, workdir, budget=400):
    if want_sig.endswith("|hang"):
        budget = min(budget, 40)  # every surviving candidate costs a full timeout
    """delta debugging over the op list, then over argument magnitudes; every op list is a valid
    program, which is what makes this sound."""
    head, ops = split_program(text)
    runs = [0]

    def still(ops_):
        if runs[0] >= budget:
            return False
        runs[0] += 1
        o = replay_text(exe, prop, config, join_program(head, ops_), workdir,
                        timeout=8 if want_sig.endswith("|hang") else 60)
        return o.kind != "pass" and o.signature == want_sig

    n = 2
    while len(ops) >= 2 and runs[0] < budget:
        chunk = max(1, len(ops) // n)
        reduced = False
        for i in range(0, len(ops), chunk):
            cand = ops[:i] + ops[i + chunk:]
            if cand and still(cand):
                ops = cand
                n = max(n - 1, 2)
                reduced = True
                break
        if not reduced:
            if chunk == 1:
                break
            n = min(n * 2, len(ops))
    # drop trailing ops one by one / single ops
    i = 0
    while i < len(ops) and runs[0] < budget:
        cand = ops[:i] + ops[i + 1:]
        if still(cand):
            ops = cand
        else:
            i += 1
    # shrink arguments towards small values
    for i in range(len(ops)):
        parts = ops[i].split()
        for j in (2, 3, 4):
            if runs[0] >= budget:
                break
            v = int(parts[j])
            for cand_v in (0, v % 16, v % 256):
                if cand_v >= v:
                    continue
                p2 = parts[:]
                p2[j] = str(cand_v)
                cand = ops[:i] + [" ".join(p2)] + ops[i + 1:]
                if still(cand):
                    ops = cand
                    parts = p2
                    break
    return join_program(head, ops)


STOPPED = []  # shards that reached their time limit in this process (inconclusive remainder)


def run_shards(exe, prop, config, n_shards, max_success, max_size, workdir, tag, timeout=None):
    """-> (list of stats dicts, list of Outcome for failures/crashes)"""
    os.makedirs(workdir, exist_ok=True)
    procs = []
    for k in range(n_shards):
        shard = "%s-%s-%d" % (tag, config, k)
        s = derive_seed(seed(), prop, config, tag, k)
        env = env_for({"RC_PARAMS": "seed=%d max_success=%d max_size=%d" % (s, max_success, max_size)})
        errf = open(os.path.join(workdir, "stderr-%s.txt" % shard), "w")
        p = subprocess.Popen([exe, "--prop", prop, "--config", config, "--rc", "--out", workdir,
                              "--shard", shard], stdout=subprocess.DEVNULL, stderr=errf, env=env)
        procs.append((p, shard, errf))
    if timeout is None:
        timeout = int(os.environ.get("VF_SHARD_TIMEOUT", "1500"))
    stats, outcomes = [], []
    deadline = time.time() + timeout
    for p, shard, errf in procs:
        try:
            rc = p.wait(timeout=max(1, deadline - time.time()))
        except subprocess.TimeoutExpired:
            # time limit: ask the shard to stop before its next case (it writes its statistics);
            # never a violation, but reported (see STOPPED)
            p.terminate()
            try:
                rc = p.wait(timeout=45)  # 0 after a clean stop; a failure found meanwhile keeps its code
            except subprocess.TimeoutExpired:
                p.kill()
                p.wait()
                rc = None
            STOPPED.append(shard)
        errf.close()
        sp = os.path.join(workdir, "stats-%s.json" % shard)
        if os.path.exists(sp):
            try:
                stats.append(json.load(open(sp)))
            except ValueError:
                pass
        if rc == 0 or rc is None:
            continue
        if rc == 1 and os.path.exists(os.path.join(workdir, "fail-%s.prog" % shard)):
            text = open(os.path.join(workdir, "fail-%s.prog" % shard)).read()
            sig = open(os.path.join(workdir, "fail-%s.sig" % shard)).read().split("\n")
            outcomes.append(Outcome("fail", sig[0], "\n".join(sig[1:]).strip(), text))
        else:
            cur = os.path.join(workdir, "cur-%s.prog" % shard)
            text = open(cur).read() if os.path.exists(cur) else ""
            err = open(os.path.join(workdir, "stderr-%s.txt" % shard), errors="replace").read()
            if rc == 87:
                outcomes.append(Outcome("hang", prop + "|hang", "case did not finish (watchdog)", text))
            else:
                outcomes.append(Outcome("crash", crash_signature(prop, err), err[-3000:], text))
    return stats, outcomes


def merge_stats(stats_list):
    tot = {"cases": 0, "nontrivial": 0, "total_ops": 0, "noops": 0, "classes": {}, "subjects": {},
           "counters": {}, "opkinds": {}, "samples": [], "per_config": {}}
    hashes = set()
    rules = []
    for s in stats_list:
        if s.get("rule") and s["rule"] not in rules:
            rules.append(s["rule"])
        tot["cases"] += s.get("cases", 0)
        tot["nontrivial"] += s.get("nontrivial", 0)
        tot["total_ops"] += s.get("total_ops", 0)
        tot["noops"] += s.get("noops", 0)
        for key in ("classes", "subjects", "counters", "opkinds"):
            for k, v in s.get(key, {}).items():
                tot[key][k] = tot[key].get(k, 0) + v
        for h in s.get("nontrivial_hashes", []):
            hashes.add((s.get("target"), s.get("config"), h))
        pc = tot["per_config"].setdefault(s.get("config", "?"), {"cases": 0, "nontrivial": 0})
        pc["cases"] += s.get("cases", 0)
        pc["nontrivial"] += s.get("nontrivial", 0)
        for smp in s.get("samples", []):
            if len(tot["samples"]) < 6 and (len(tot["samples"]) < 3 or len(smp) < 1500):
                tot["samples"].append(smp)
    tot["distinct_nontrivial"] = len(hashes)
    tot["rule"] = " / ".join(rules)
    return tot


def write_evidence(prop, tier, level, coverage, wall, violations, assumptions):
    os.makedirs(EVIDENCE_DIR, exist_ok=True)
    ev = {
        "property_id": prop,
        "tier": tier,
        "seed": seed(),
        "level": level,
        "coverage": coverage,
        "assumptions": assumptions,
        "wall_s": round(wall, 2),
        "violations": violations,
    }
    path = os.path.join(EVIDENCE_DIR, prop + ".json")
    with open(path + ".tmp", "w") as f:
        json.dump(ev, f, indent=1, sort_keys=True)
    os.replace(path + ".tmp", path)


def save_violation(prop, text, signature, message, subject=""):
    d = os.path.join(OUT, prop)
    os.makedirs(d, exist_ok=True)
    h = hashlib.sha1(text.encode()).hexdigest()[:12]
    p = os.path.join(d, "violation-%s.prog" % h)
    with open(p, "w") as f:
        if subject and "# subject=" not in text:
            f.write("# subject=%s\n" % subject)  # pins the subject by name (see vf.hpp Program::hint)
        f.write(text)
        f.write("# signature: %s\n" % signature)
        for line in message.strip().splitlines()[:12]:
            f.write("# %s\n" % line)
    return p
