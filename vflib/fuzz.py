"""libFuzzer campaigns (thorough tier): bytes -> program decoder -> the same interpreter.
Only crash artifacts / semantic failures count; timeouts, OOMs and slow units are load noise."""
import glob
import json
import os
import re
import shutil
import subprocess
import time

from . import run


def campaign(prop, target, fz_exes, rc_exes, tcfg, workdir):
    budget = int(tcfg.get("fuzz_s", 0))
    jobs = int(tcfg.get("fuzz_jobs", 4))
    procs = []
    t0 = time.time()
    for config, exe in fz_exes.items():
        d = os.path.join(workdir, "fz-%s-%s" % (target, config))
        shutil.rmtree(d, ignore_errors=True)
        os.makedirs(os.path.join(d, "corpus"))
        env = run.env_for({"VF_PROP": prop, "VF_CONFIG": config, "VF_OUT": d})
        cmd = [exe, "-max_total_time=%d" % budget, "-jobs=%d" % jobs, "-workers=%d" % jobs,
               "-seed=%d" % (run.seed() + 1), "-entropic=0", "-max_len=2048", "-timeout=25",
               "-rss_limit_mb=4096", "-print_final_stats=1", "-artifact_prefix=%s/art-" % d,
               "-detect_leaks=0", os.path.join(d, "corpus")]
        procs.append((config, d, subprocess.Popen(cmd, cwd=d, stdout=subprocess.DEVNULL,
                                                  stderr=subprocess.DEVNULL, env=env)))
    stats, outcomes, info = [], [], {}
    for config, d, p in procs:
        try:
            p.wait(timeout=budget + 300)
        except subprocess.TimeoutExpired:
            p.kill()
            p.wait()
        execs = 0
        for log in glob.glob(os.path.join(d, "fuzz-*.log")):
            txt = open(log, errors="replace").read()
            m = re.findall(r"stat::number_of_executed_units:\s*(\d+)", txt)
            if m:
                execs += int(m[-1])
            else:
                m = re.findall(r"#(\d+)\s", txt)
                if m:
                    execs += int(m[-1])
        for sp in glob.glob(os.path.join(d, "fz-stats-*.json")):
            try:
                stats.append(json.load(open(sp)))
            except ValueError:
                pass
        arts = sorted(glob.glob(os.path.join(d, "art-crash-*")))
        noise = len(glob.glob(os.path.join(d, "art-timeout-*"))) + len(glob.glob(os.path.join(d, "art-oom-*"))) \
            + len(glob.glob(os.path.join(d, "art-slow-unit-*")))
        info[config] = {"execs": execs, "corpus_units": len(os.listdir(os.path.join(d, "corpus"))),
                        "crash_artifacts": len(arts), "timeout_oom_slow_artifacts_ignored": noise,
                        "budget_s": budget, "jobs": jobs}
        # semantic failures leave the program text next to the artifact
        texts = []
        for fp in sorted(glob.glob(os.path.join(d, "fz-fail-*.prog"))):
            texts.append(open(fp).read())
        # sanitizer crashes: decode the artifact bytes back into a program with the dump switch
        exe = fz_exes[config]
        for a in arts[:6]:
            env = run.env_for({"VF_PROP": prop, "VF_CONFIG": config, "VF_OUT": d, "VF_DUMP": "1"})
            dump = os.path.join(d, "fz-dump.prog")
            if os.path.exists(dump):
                os.remove(dump)
            try:
                subprocess.run([exe, a], cwd=d, stdout=subprocess.DEVNULL, stderr=subprocess.DEVNULL,
                               env=env, timeout=120)
            except subprocess.TimeoutExpired:
                pass
            if os.path.exists(dump):
                texts.append(open(dump).read())
        seen = set()
        for t in texts:
            if t in seen:
                continue
            seen.add(t)
            outcomes.append((config, run.Outcome("fail", prop + "|fuzz", "found by libFuzzer", t)))
    info["wall_s"] = round(time.time() - t0, 1)
    return stats, outcomes, info
