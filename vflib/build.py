"""Build layer of the /verif framework: config generation, content-addressed object cache,
parallel compilation of the library (from the repository's *current working tree*) and of the
harness targets.  Python stdlib only."""
import concurrent.futures as cf
import hashlib
import json
import os
import re
import shutil
import subprocess
import sys
import threading
import time

VERIF = os.path.dirname(os.path.dirname(os.path.abspath(__file__)))
CACHE = os.environ.get("VERIF_CACHE") or os.path.join(VERIF, ".cache")
CXX = "clang++"

# build configurations (DESIGN.md §2)
CONFIGS = {
    #            ASSERT FILL FENCE LEAK PTR DBL TSM
    "rel":   dict(A=0, F=0, FE=0,  L=0, P=0, D=0, T=2),
    "base":  dict(A=0, F=1, FE=0,  L=1, P=1, D=0, T=2),
    "dbg":   dict(A=1, F=1, FE=8,  L=1, P=1, D=1, T=2),
    "dbg16": dict(A=1, F=1, FE=16, L=1, P=1, D=1, T=2),
    "tsm1":  dict(A=0, F=1, FE=0,  L=1, P=1, D=0, T=1),
    "tsan":  dict(A=0, F=1, FE=0,  L=1, P=1, D=0, T=2),
}

SAN_FLAGS = {
    "asan": ["-fsanitize=address,undefined", "-fno-sanitize-recover=undefined",
             "-fsanitize=fuzzer-no-link"],
    "tsan": ["-fsanitize=thread"],
}
BASE_FLAGS = ["-std=gnu++17", "-gline-tables-only", "-O1", "-fno-omit-frame-pointer",
              "-DFOONATHAN_MEMORY=1", "-DFOONATHAN_MEMORY_VERSION_MAJOR=0",
              "-DFOONATHAN_MEMORY_VERSION_MINOR=7", "-DFOONATHAN_MEMORY_VERSION_PATCH=4",
              "-DFOONATHAN_MEMORY_VERIF=1", "-w"]

LIB_SOURCES = ["detail/align.cpp", "detail/debug_helpers.cpp", "detail/assert.cpp",
               "detail/free_list.cpp", "detail/free_list_array.cpp", "detail/small_free_list.cpp",
               "debugging.cpp", "error.cpp", "heap_allocator.cpp", "iteration_allocator.cpp",
               "malloc_allocator.cpp", "memory_arena.cpp", "memory_pool.cpp",
               "memory_pool_collection.cpp", "memory_stack.cpp", "new_allocator.cpp",
               "static_allocator.cpp", "temporary_allocator.cpp", "virtual_memory.cpp"]


class BuildError(Exception):
    def __init__(self, what, log, library):
        super().__init__(what)
        self.log = log
        self.library = library  # True: the repository's own sources failed to compile


def repo_root():
    return os.environ.get("VERIF_REPO", "/repo")


_hash_cache = {}
_hash_lock = threading.Lock()


def file_sha(path):
    try:
        st = os.stat(path)
    except OSError:
        return "missing"
    key = (path, st.st_mtime_ns, st.st_size)
    with _hash_lock:
        if key in _hash_cache:
            return _hash_cache[key]
    with open(path, "rb") as f:
        h = hashlib.sha1(f.read()).hexdigest()
    with _hash_lock:
        _hash_cache[key] = h
    return h


def sha_text(s):
    return hashlib.sha1(s.encode()).hexdigest()


def ensure_dir(d):
    os.makedirs(d, exist_ok=True)
    return d


def gen_config_dir(config):
    """config_impl.hpp is produced from the repository's own template, so edits to it are seen."""
    c = CONFIGS[config]
    repo = repo_root()
    with open(os.path.join(repo, "src/config.hpp.in")) as f:
        tmpl = f.read()
    vals = {
        "FOONATHAN_MEMORY_CHECK_ALLOCATION_SIZE": 1,
        "FOONATHAN_MEMORY_DEBUG_ASSERT": c["A"],
        "FOONATHAN_MEMORY_DEBUG_FILL": c["F"],
        "FOONATHAN_MEMORY_DEBUG_LEAK_CHECK": c["L"],
        "FOONATHAN_MEMORY_DEBUG_POINTER_CHECK": c["P"],
        "FOONATHAN_MEMORY_DEBUG_DOUBLE_DEALLOC_CHECK": c["D"],
        "FOONATHAN_MEMORY_EXTERN_TEMPLATE": 1,
    }
    subst = {
        "FOONATHAN_MEMORY_DEFAULT_ALLOCATOR": "heap_allocator",
        "FOONATHAN_MEMORY_DEBUG_FENCE": str(c["FE"]),
        "FOONATHAN_MEMORY_TEMPORARY_STACK_MODE": str(c["T"]),
    }

    def cmakedefine01(m):
        return "#define %s %d" % (m.group(1), 1 if vals.get(m.group(1), 0) else 0)

    out = re.sub(r"#cmakedefine01\s+(\w+)", cmakedefine01, tmpl)
    out = re.sub(r"\$\{(\w+)\}", lambda m: subst.get(m.group(1), "0"), out)
    sizes = container_node_sizes()
    key = sha_text(out + sizes + repo)[:16]
    d = ensure_dir(os.path.join(CACHE, "cfg", config + "-" + key))
    p = os.path.join(d, "config_impl.hpp")
    if not os.path.exists(p) or open(p).read() != out:
        with open(p, "w") as f:
            f.write(out)
    p = os.path.join(d, "container_node_sizes_impl.hpp")
    if not os.path.exists(p) or open(p).read() != sizes:
        with open(p, "w") as f:
            f.write(sizes)
    return d


_sizes_lock = threading.Lock()


def container_node_sizes():
    """Runs the repository's own cmake/get_container_node_sizes.cmake (C10 anchors it); cached by
    the content of /repo/cmake and the compiler id."""
    repo = repo_root()
    cm = os.path.join(repo, "cmake")
    h = hashlib.sha1()
    for n in sorted(os.listdir(cm)):
        p = os.path.join(cm, n)
        if os.path.isfile(p):
            h.update(n.encode())
            h.update(file_sha(p).encode())
    h.update(subprocess.run(["c++", "--version"], capture_output=True, text=True).stdout.encode())
    key = h.hexdigest()[:16]
    out = os.path.join(ensure_dir(os.path.join(CACHE, "nodesizes")), key + ".hpp")
    with _sizes_lock:
        if os.path.exists(out):
            return open(out).read()
        work = os.path.join(CACHE, "nodesizes", "work-" + key)
        shutil.rmtree(work, ignore_errors=True)
        ensure_dir(work)
        with open(os.path.join(work, "CMakeLists.txt"), "w") as f:
            f.write("cmake_minimum_required(VERSION 3.14)\nproject(ns CXX)\n"
                    "include(%s/get_container_node_sizes.cmake)\n"
                    "get_container_node_sizes(${CMAKE_BINARY_DIR}/out.hpp)\n" % cm)
        r = subprocess.run(["cmake", "-G", "Ninja", "-S", work, "-B", os.path.join(work, "b")],
                           capture_output=True, text=True)
        res = os.path.join(work, "b", "out.hpp")
        if r.returncode != 0 or not os.path.exists(res):
            raise BuildError("container node size generation failed", r.stdout + r.stderr, True)
        txt = open(res).read()
        with open(out, "w") as f:
            f.write(txt)
        shutil.rmtree(work, ignore_errors=True)
        return txt


def san_of(config):
    return "tsan" if config == "tsan" else "asan"


def flags_for(config, cfgdir):
    repo = repo_root()
    return (BASE_FLAGS + SAN_FLAGS[san_of(config)] +
            ["-I" + cfgdir, "-I" + os.path.join(repo, "include"),
             "-I" + os.path.join(repo, "include/foonathan/memory"), "-I" + VERIF])


def _deps_path(tu_id):
    return os.path.join(ensure_dir(os.path.join(CACHE, "deps")), tu_id + ".json")


def compile_tu(src, flags, library, extra_flags=()):
    """Content-addressed compile: the object is keyed by the command line and the hashes of every
    file the TU included last time (including the source itself)."""
    cmd_base = [CXX] + list(flags) + list(extra_flags) + ["-c", src]
    tu_id = sha_text(" ".join(cmd_base))[:24]
    objdir = ensure_dir(os.path.join(CACHE, "obj"))
    deps = None
    try:
        with open(_deps_path(tu_id)) as f:
            deps = json.load(f)
    except (OSError, ValueError):
        deps = None
    if deps:
        key = sha_text(tu_id + "".join(p + file_sha(p) for p in deps))[:32]
        obj = os.path.join(objdir, key + ".o")
        if os.path.exists(obj):
            os.utime(obj)
            return obj
    tmp_obj = os.path.join(objdir, "tmp-%s-%d.o" % (tu_id, os.getpid()))
    tmp_d = tmp_obj + ".d"
    r = subprocess.run(cmd_base + ["-o", tmp_obj, "-MD", "-MF", tmp_d], capture_output=True, text=True)
    if r.returncode != 0:
        for p in (tmp_obj, tmp_d):
            if os.path.exists(p):
                os.remove(p)
        raise BuildError("compilation of %s failed" % src, r.stdout + r.stderr, library)
    txt = open(tmp_d).read().replace("\\\n", " ")
    dep_list = sorted(set(os.path.abspath(p) for p in txt.split(":", 1)[1].split()
                          if not p.startswith("/usr/")))
    os.remove(tmp_d)
    with open(_deps_path(tu_id) + ".tmp%d" % os.getpid(), "w") as f:
        json.dump(dep_list, f)
    os.replace(_deps_path(tu_id) + ".tmp%d" % os.getpid(), _deps_path(tu_id))
    key = sha_text(tu_id + "".join(p + file_sha(p) for p in dep_list))[:32]
    obj = os.path.join(objdir, key + ".o")
    os.replace(tmp_obj, obj)
    return obj


def link(objs, out_name, config, fuzzer=False, libs=()):
    key = sha_text(" ".join(sorted(objs)) + out_name + str(fuzzer) + " ".join(libs))[:24]
    bindir = ensure_dir(os.path.join(CACHE, "bin"))
    exe = os.path.join(bindir, "%s-%s-%s" % (out_name, config, key))
    if os.path.exists(exe):
        os.utime(exe)
        return exe
    san = list(SAN_FLAGS[san_of(config)])
    if fuzzer:
        san = ["-fsanitize=fuzzer,address,undefined"]
    else:
        san = [f for f in san if "fuzzer" not in f]
    cmd = [CXX] + san + objs + list(libs) + ["-o", exe + ".tmp%d" % os.getpid()]
    r = subprocess.run(cmd, capture_output=True, text=True)
    if r.returncode != 0:
        raise BuildError("link of %s failed" % out_name, r.stdout + r.stderr, False)
    os.replace(exe + ".tmp%d" % os.getpid(), exe)
    return exe


_pool = None


def pool():
    global _pool
    if _pool is None:
        _pool = cf.ThreadPoolExecutor(max_workers=int(os.environ.get("VERIF_JOBS", "16")))
    return _pool


def build_library(config):
    """-> (list of objects, cfgdir). Futures are resolved here."""
    cfgdir = gen_config_dir(config)
    flags = flags_for(config, cfgdir)
    repo = repo_root()
    futs = [pool().submit(compile_tu, os.path.join(repo, "src", s), flags, True) for s in LIB_SOURCES]
    return futs, cfgdir, flags


# harness targets: name -> (sources relative to /verif, extra libs)
TARGETS = {
    "hist": ["targets/hist_run.cpp", "targets/hist_s1.cpp", "targets/hist_s2.cpp",
             "targets/hist_s3.cpp", "targets/hist_s4.cpp"],
    "fence": ["targets/fence.cpp"],
    "comp": ["targets/comp.cpp"],
    "obj": ["targets/obj.cpp"],
    "thr": ["targets/thr.cpp"],
    "cont": ["targets/cont.cpp"],
}


def build_target(target, config, want_fuzzer=False):
    """-> dict(rc=<exe>, fz=<exe or None>)"""
    lib_futs, cfgdir, flags = build_library(config)
    srcs = TARGETS[target]
    tgt_futs = [pool().submit(compile_tu, os.path.join(VERIF, s), flags, False) for s in srcs]
    rc_fut = pool().submit(compile_tu, os.path.join(VERIF, "vf/rc_driver.cpp"), flags, False)
    fz_fut = pool().submit(compile_tu, os.path.join(VERIF, "vf/fz_driver.cpp"), flags, False) \
        if want_fuzzer else None
    lib_objs = [f.result() for f in lib_futs]
    tgt_objs = [f.result() for f in tgt_futs]
    out = {}
    out["rc"] = link(lib_objs + tgt_objs + [rc_fut.result()], target + "-rc", config,
                     libs=["-lrapidcheck", "-lpthread"])
    if want_fuzzer:
        out["fz"] = link(lib_objs + tgt_objs + [fz_fut.result()], target + "-fz", config,
                         fuzzer=True, libs=["-lpthread"])
    return out


def prune_cache(max_bytes=6 << 30):
    """LRU prune of the object/binary cache (disk is limited)."""
    items = []
    for sub in ("obj", "bin"):
        d = os.path.join(CACHE, sub)
        if not os.path.isdir(d):
            continue
        for n in os.listdir(d):
            p = os.path.join(d, n)
            try:
                st = os.stat(p)
                items.append((st.st_mtime, st.st_size, p))
            except OSError:
                pass
    total = sum(i[1] for i in items)
    if total <= max_bytes:
        return
    items.sort()
    for _, size, p in items:
        if total <= max_bytes * 0.7:
            break
        try:
            os.remove(p)
            total -= size
        except OSError:
            pass
